#!/usr/bin/env python3
"""Source of props_meta.json (per-property driver/evidence/manifest metadata)."""
import json, os
V = os.path.dirname(os.path.dirname(os.path.abspath(__file__)))
TITLES = {json.loads(l)["id"]: json.loads(l)["title"] for l in open(os.path.join(V, "properties.jsonl"))}
COMMON_ASSUME = ["Go toolchain go1.23.5 and its standard library behave as documented", "the harness build (tag verif) differs from the shipped build only by the add-only hooks listed in MANIFEST.hooks"]
M = {}

def prop(pid, **kw):
    kw.setdefault("title", TITLES[pid])
    kw.setdefault("test", "Test" + pid)
    kw.setdefault("level", "exploration")
    kw.setdefault("ready", True)
    kw["assumptions"] = kw.get("assumptions", []) + COMMON_ASSUME
    M[pid] = kw

prop("C07",
  shards_quick=8, shards_thorough=16,
  rule="rapid-generated character recipes (class masks, custom allow/require/exclude strings from a colliding pool, 0-8 required sets, lengths 1-64 with a 10% tail to 4000) restricted by construction to C07's premise; Entropy() compared with log2 of an independent exact count (inclusion-exclusion, cross-checked by a DP and by brute force on small recipes) within 2 ulp32, integer count compared exactly through hook H4. Non-trivial = at least two required sets with a pairwise overlap, or a required set meeting the excluded set; distinct = distinct recipe field values (hash of the recipe).",
  assumptions=["math/big and math.Log2 are correct", "verif hook H4 returns the integer Entropy() takes the logarithm of"],
  level_text="Generated-input search: thousands of character recipes per run (overlap patterns among required sets, class flags and exclusions deliberately frequent; lengths to 4000) compared against an independent exact count. Exact per recipe, sampled over recipes; right level because the property is a closed-form identity whose failures are confined to particular overlap patterns, which the generator is built to hit.",
  level_note="Trusts math/big, math.Log2 and the reference inclusion-exclusion (cross-checked in every run by a DP and by brute force on small recipes). Does not establish absence for recipes outside the generated pool/lengths.",
  technique="property-based testing (rapid) against an independent exact-count reference model")

prop("C08",
  shards_quick=8, shards_thorough=16,
  rule="rapid-generated word lists (pool with twin pairs, pre-capitalised, caseless, non-ASCII, multi-word entries; a third of the cases are 'one twin pair + capitalisable words'), all schemes incl. unknown strings, every separator kind; per case K constructions of NewWordList from rapid-drawn permutations/multiplicities of the same words (K=24 quick, 100 thorough) x 3 Entropy() calls: every value within 4 ulp32 of the documented formula and all bit-identical; plus the shipped lists. Non-trivial = list contains w and Title(w), every kept word is capitalisable, scheme is one/random; distinct = distinct (kept set, length, scheme, separator). Plus: several recipes (schemes x lengths) over one list object in turn; first Entropy() calls from six goroutines at once on a fresh list.",
  assumptions=["strings.Title defines the title-cased form", "Go map iteration order is randomised per construction (the check relies on repetition: an order dependence survives K constructions with probability <= 2^-K-ish per affected case)"],
  level_text="Generated-input search with repetition across constructions; differential against the documented formula plus a metamorphic relation (permutation/multiplicity invariance, call-to-call stability).",
  level_note="Cannot choose Go's map iteration order; relies on K repeated constructions per case. Float tolerance 4 ulp32 calibrated (worst observed 1.54).",
  technique="property-based testing (rapid): reference formula + permutation/repetition metamorphic relation")

prop("C10",
  shards_quick=8, shards_thorough=16,
  rule="rapid-generated input lists (duplicates, twins, pre-capitalised, caseless, special-casing and non-ASCII words, empty input); per case 1+K constructions from permutations/multiplicities (K=16 quick, 100 thorough); the kept set is read out by forcing every index of a one-word generation and must equal the reference normalisation as a set, Size() its cardinality, caller's slice unchanged, atoms under every capitalising scheme are kept words or title forms. Non-trivial = input with both a duplicate and a twin pair; distinct = distinct (kept set, input size). Plus: lists confusable with the generated one (two words merged, a word split) normalised right afterwards; the shipped lists and slices of them (full, prefix, shifted window) in one process.",
  assumptions=["strings.Title defines the title-cased form", "hook H3 announces the bound of each draw (used to force every word index)"],
  level_text="Generated-input search; exact set equality with a reference normalisation per constructed list (both directions), exhaustive over the indices of each list.",
  level_note="Lists come from a structured pool of ~40 words; map iteration order is covered by repetition only.",
  technique="property-based testing (rapid) with exhaustive index read-out per generated list against a reference model")

prop("C11", fuzz={"targets": ["FuzzC11"], "seconds": 90},
  shards_quick=8, shards_thorough=16,
  rule="(a) passwords generated by rapid-drawn character and wordlist recipes under scripted random tapes (non-ASCII alphabets, words, separators, empty separators, words of 255/256+ characters); (b) arbitrary (value,type) sequences built through the public full-index constructor, token lengths biased to 1,2,127-129,254,255 and to multi-byte characters, type patterns all-atom / alternating / S-A-S / random / undocumented type bytes. Oracle: MakeIndices succeeds for 1..255-character tokens, Tokenize(String(), index, entropy) returns identical values, types and entropy bits, index length obeys the documented size law (either size accepted for shapes the sentence leaves open); >255-character tokens: error or still-exact round trip. Non-trivial = a multi-byte token, a token >= 128 characters, or a sequence needing a full index; distinct = distinct token sequences. Decoy MakeIndices calls on other passwords are made between MakeIndices and Tokenize; a fortieth of the token values contain invalid UTF-8 bytes (error or exact); sequences spliced from constructed tokens and generated passphrases incl. tokens over 255 characters behind a pattern break.",
  assumptions=["a character is one UTF-8 sequence (utf8.DecodeRuneInString)"],
  level_text="Generated-input search with a round-trip oracle and a documented-size predicate.",
  level_note="Token sequences with more than 8 tokens come only from generated recipes (up to 12 atoms + separators). Native fuzzing is thorough-tier only.",
  technique="property-based testing (rapid) round-trip + size-law oracle; go native fuzzing in the thorough tier")

prop("C12", fuzz={"targets": ["FuzzC12"], "seconds": 90},
  shards_quick=8, shards_thorough=16,
  rule="rapid-generated (string, index, entropy) triples: strings incl. empty, invalid UTF-8 and multi-byte; index = kind byte 0..255 (weighted to 0-3) + bodies of every length/parity with lengths biased to sum to the character count -1/0/+1, 255s, truncated full indices. Oracle = reference decoder written from the documented format: never a panic; nil error only with exactly the tokens the index specifies (consecutive slices, types, entropy bits); empty index, unknown kind, dangling half pair, length past the string must be errors. Non-trivial = kind 1-3 with >= 2 body bytes, or a malformed index; distinct = distinct (string, index).",
  assumptions=["a character is one UTF-8 sequence; an invalid byte is a character of its own"],
  level_text="Generated-input search against a reference decoder (totality + exactness), plus coverage-guided native fuzzing in the thorough tier.",
  level_note="Strings up to 14 characters and indices up to ~16 bytes in the rapid part; longer inputs only through native fuzzing.",
  technique="property-based testing (rapid) against a reference decoder; go native fuzzing in the thorough tier")

prop("C01",
  shards_quick=16, shards_thorough=16, timeout_quick=1200, timeout_thorough=7200,
  rule="(1) exhaustive sweeps: for each chosen bound n all 2^32 values of the first raw word are fed to the real bounded draw (hook H1) and histogrammed: every result < n, every alternative selected by exactly the same number of words, accepted+rejected = 2^32, accepted > 2^31, every rejected word followed by a known-accepted word yields that word's result after exactly two reads. quick: 3 bounds (a seed-chosen power of two, a seed-chosen small non-power, a seed-chosen odd bound in [2^16,2^24]); thorough: ~40 bounds <= 2^24 (all small alphabet/list sizes, 2^k+-1) and 16 bounds up to 2^32-1. (2) rapid over (n, tape) with boundary-biased words: result < n, consumption a positive multiple of 4, accepted-once/rejected-once stable, rejected prefixes never change the result, no 64 consecutive rejections. Non-trivial = swept bound that is not a power of two, or sampled case with at least one rejected word; distinct = distinct bound / distinct (n, words). (3) long rejection runs: 1..257 rejected words (found by probing) before an accepted word must only change the number of words consumed; for floor(2^32/n) <= 6 no alternative may have more preimages than that among words congruent to an accepted one. (4) four goroutines drawing concurrently with two different bounds from a source cycling through a small word set: every result must be the single-threaded result of some word of the set for that bound.",
  assumptions=["hook H1 is the draw every generator uses (checked by the draw observer in C02-C06)", "bounds not swept are covered only by the sampled necessary conditions"],
  level_text="Exhaustive counting per swept bound (all 2^32 raw words; exact, algorithm-independent), sampled over bounds; plus generated (n, stream) cases asserting model-free necessary conditions for every bound class.",
  level_note="Exact only for the swept bounds. The oracle never assumes v%n, big-endian decoding or a particular rejection rule, so an unbiased sampler of another design passes.",
  technique="exhaustive input enumeration per bound (2^32 words) + property-based testing (rapid) over bounds and streams",
  engine="raw-word sweep")

prop("C02",
  shards_quick=16, shards_thorough=16, timeout_quick=1200, timeout_thorough=7200,
  rule="rapid-generated character recipes shrunk by construction to enumerable cells (|alphabet|^Length <= 2e4 quick / 2e5 thorough; class masks, colliding custom strings with duplicates and multi-byte characters, 0-3 required sets relaxed until Generate accepts). For each recipe the complete candidate cell is enumerated through forced index choices (every vector of the D draws of one candidate, D measured): the outputs of accepted leaves must be exactly the reference set of valid strings, each with the same exact weight, acceptance weight = exact p_success, every rejected leaf is followed by a complete redraw (continuation output unchanged, exactly D more draws); for small cells the same cell is re-enumerated behind 1 and one of {2,7,50,199} rejected candidates, and MaxTrials rejected candidates must give an error after exactly MaxTrials*D draws. Non-trivial = cell with >=1 rejected and >=2 accepted leaves, or an input listing a character twice with >=2 accepted leaves; distinct = distinct recipes. Plus: recipes easily confused with the generated one (required sets merged/split/re-bracketed) are used first (half of the cases) or enumerated right afterwards (small cells) in the same process; for long recipes (Length 12-150) a support check (every character at every position among N uniformly driven generations, false-alarm bound 1e-12) and a local-injectivity check (the alternatives of each single draw give pairwise different passwords in the context of an accepted candidate).",
  assumptions=["hook H3 announces every bounded draw; H2 makes generation a function of the stream", "each index of a draw is equally likely (C01, swept for the bounds that occur)"],
  level_text="Exact output distribution per generated recipe by complete enumeration of the candidate cell (no sampling inside a cell), sampled over recipes. Cells are small by necessity; bias that needs long passwords or big alphabets is outside them.",
  level_note="Rests on C01 for per-draw uniformity and on the measured retry structure (checked per leaf). Does not assume which draw fills which position or the order of the alphabet.",
  technique="exhaustive choice-tree enumeration per rapid-generated recipe against a reference set of valid strings",
  engine="choice-tree enumerator")

prop("C04",
  shards_quick=16, shards_thorough=16, timeout_quick=1200, timeout_thorough=7200,
  rule="rapid-generated wordlist recipes small enough to enumerate (premise-respecting lists of 1-7 words from a structured pool incl. uncapitalisable, pre-capitalised, caseless and non-ASCII words; Length 1-6; the five schemes; separators: constants incl. empty and multi-byte, tiny presets, NewSFFunction over 1-4 characters with Length 1-2). The complete tree of index choices of Generate is enumerated (<= 2e4 leaves quick / 2e5 thorough) and the exact distribution over token sequences must equal, entry by entry, the push-forward of the uniform product (capitalised set x word indices x per-gap separator values); when every word is capitalisable all passwords must be equally likely. Plus both shipped lists: every index of a one-word password yields a distinct list word (complete), two-word passwords at forced corner indices. Non-trivial = list size not a power of two with Length >= 2, or scheme one/random, or a multi-valued functional separator with >= 2 gaps; distinct = distinct (kept list, length, scheme, separator). Plus for recipes beyond enumeration (Length 8-160): support check (every word at every position, every position capitalised and not, every separator value in every gap) and local injectivity of every draw; separators include a caller-written function drawing through the library and under-claiming its entropy; every list is built after a confusable decoy list.",
  assumptions=["each index of a draw is equally likely (C01)", "hook H3 announces every bounded draw; H2 makes functional separators deterministic", "strings.Title defines capitalisation"],
  level_text="Exact output distribution per generated recipe by complete choice-tree enumeration, sampled over recipes; draw order is observed, not assumed.",
  level_note="Trees are small (<= 2e5 leaves): lists up to 7 words, lengths up to 6. Separator recipes with requirements (retries) are excluded from enumeration.",
  technique="exhaustive choice-tree enumeration per rapid-generated recipe against a reference push-forward distribution",
  engine="choice-tree enumerator")

prop("C06",
  shards_quick=16, shards_thorough=16, timeout_quick=1200, timeout_thorough=7200,
  rule="the enumerable wordlist trees of C04 (half of them forced to one/random so lists with uncapitalisable or pre-capitalised words give non-uniform trees) and the enumerable character cells of C02. From the exact distribution: every returned Password carries the bits of recipe.Entropy(); -log2(max probability) >= Entropy (never overstated) and equals it within 4 ulp32 (min-entropy). For character cells with rejections the retry process is folded in exactly per candidate and by the geometric sum over MaxTrials. Non-trivial = non-uniform tree, functional separator, or a character cell with rejections; distinct = distinct recipes. Plus long recipes (Length 20-100, one/random): formula value and support of every outcome the entropy counts; confusable sibling recipes are evaluated before the character cell.",
  assumptions=["each index of a draw is equally likely (C01)", "the retry structure measured by C02 (complete redraws)"],
  level_text="Exact max-probability per generated recipe from complete enumeration, compared with the reported entropy; sampled over recipes.",
  level_note="Small recipes only (<= 2e5 leaves). Float comparison tolerance 4 ulp32 + 1e-6.",
  technique="exhaustive choice-tree enumeration per rapid-generated recipe; min-entropy oracle",
  engine="choice-tree enumerator")

prop("C03",
  shards_quick=16, shards_thorough=16, timeout_quick=1200, timeout_thorough=7200,
  rule="(1) all 2^15 (Allow,Require,Exclude) class-flag combinations: Alphabet() equals the reference alphabet, sorted and repeat-free (exhaustive); a seed-chosen eighth (quick) / all (thorough) of the feasible ones also generate once under a scripted tape. (2) rapid-generated recipes (colliding custom strings, multi-byte characters, 0-4 required sets, lengths to 64 with a tail to 2000) x raw scripted tapes: the password has exactly Length single-character atom tokens, String() is their concatenation, every character is in the reference alphabet, none is excluded, every live required set is hit. (3) forced draws: for every index j of the announced bound, one generation whose first draw and one whose last draw of the first candidate is j (so index 0 and n-1 always occur); all outputs valid, and when every j obtained an accepted first candidate the union of observed characters must be all of Alphabet(). Non-trivial = an excluded character that is also allowed/required, >= 2 required sets, or a multi-byte alphabet; distinct = distinct recipes. Plus: (2b) confusable sibling recipes evaluated in the same process; (2c) long class-flag recipes (Length 20-220) whose first candidate is forced to one repeated character; the forced part also scripts a stream on which every candidate fails.",
  assumptions=["hook H3 (bounds) and H2 (deterministic alphabet order) for the forced part", "utf8 decoding defines a character"],
  level_text="Generated-input search with a reference validity predicate; exhaustive over the class-flag cube and over the indices of each generated recipe's character draw.",
  level_note="Custom strings come from a 30-character pool; validity of long passwords is checked on sampled streams only.",
  technique="property-based testing (rapid) + exhaustive flag-cube and forced-index enumeration against a reference validity model",
  exhaustive=False)

prop("C05",
  shards_quick=16, shards_thorough=16,
  rule="rapid-generated wordlist recipes (any list from the structured pool, Length 1-12, the five schemes and unknown scheme strings, constant separators incl. empty and multi-byte, presets, NewSFFunction recipes, scripted closures returning a drawn sequence incl. empty strings) under four stream modes (raw boundary-biased tape; every draw forced to its last index; to index 0; pseudo-random forced). Validity predicate: exactly Length atoms, each a kept word or title form with a selected/unselected assignment consistent with the scheme; constant non-empty separator: strictly A S A ... A with every S equal to it; empty: no separator tokens; functional: at most one separator token per gap, never leading/trailing, values producible by the function, and for scripted closures an in-order subsequence of the values actually returned (one fresh call per gap); String(), Atoms(), Separators() agree with the tokens. Non-trivial = Length >= 2 with scheme != none, or a functional / multi-byte / empty separator; distinct = distinct (kept list, length, scheme, separator, mode). Lengths to 300 in a twelfth of the cases; caller-written separators that draw through the library or generate 1-3 words from a second recipe over the same list (re-entrancy).",
  assumptions=["strings.Title defines capitalisation", "hook H3 for the forced modes"],
  level_text="Generated-input search with a validity predicate (many outputs are correct), boundary draws forced rather than hoped for.",
  level_note="Unknown scheme strings are judged with the weakest reading (any capitalisation).",
  technique="property-based testing (rapid) with a structural validity predicate and forced boundary draws")

prop("C09", level="fault_enumeration",
  shards_quick=16, shards_thorough=16, timeout_quick=1200, timeout_thorough=7200,
  rule="rapid-generated recipes of both kinds (character recipes with retries, wordlist recipes with constant, preset and NewSFFunction separators) x scripted source streams. (1) only the source: the same bytes give the same tokens, entropy and byte consumption on a second run and under 1-3 rapid-drawn chunkings of the same bytes (pieces of 0-4 bytes incl. (0,nil) reads); every announced draw consumes >= 4 source bytes; a recipe with >= 48 bits gives a different password on an unrelated stream. (2) fail closed: for a generation making R reads, a fault is injected at every read position k (all k when R <= 64, else the first/last 16 and a drawn sample) x delivered bytes 0..3 x error kind (custom, io.EOF, io.ErrUnexpectedEOF) x (keeps failing | recovers afterwards): the outcome must be a panic or an error and never a password. Non-trivial = case with a fault at a read position >= 1; distinct = distinct (recipe, stream). A source that keeps failing must make generation abort (going on reading for 4000 reads is a violation). Concurrent accounting: a source handing out each 32-bit value once; the value-to-word map is learned sequentially, then the multiset of words chosen by 2-12 goroutines must equal the image of the consumed values.",
  assumptions=["crypto/rand.Read is io.ReadFull(rand.Reader, b) (go1.23)", "hook H3 (draw announcements) for the per-draw byte accounting"],
  level_text="Fault enumeration: every read position of each generated generation x every fault shape; plus metamorphic determinism/chunking relations over generated streams.",
  level_note="Full-length reads that also return an error are not faults under io.Reader's contract and are not injected. Randomness imported outside crypto/rand is detected only dynamically (a draw that consumes no source bytes).",
  technique="fault injection at every read of a scripted random source over rapid-generated recipes and streams")

prop("C13",
  shards_quick=16, shards_thorough=16,
  rule="rapid-generated character recipes over the whole feasibility range (degenerate: Length <= 0, empty alphabet, exclusion emptying sets; a band generator aiming single-attempt success p below / near / above the refusal threshold), MaxTrials in {1,5,200,1000} and MaxFailRate in {1e-9,1e-3,0.5} varied in a third of the cases, raw boundary-biased streams or a scripted stream on which every attempt fails; wordlist recipes incl. zero values, NewWLRecipe(n,nil), &WordList{}, Length <= 0. Oracle: never a panic; exactly one of (password,error); refused (error, zero draws, zero bytes) iff Length < 1, empty alphabet/list, or (1-p)^MaxTrials > MaxFailRate with p exact (cases within 1% of the limit assert nothing); otherwise an error only after MaxTrials whole attempts; on the all-fail stream exactly MaxTrials*D draws then an error; SuccessProbability() equals the exact fraction within 3 ulp32 of log2|U|^L on the log scale. Non-trivial = requirement present with 0 < p < 1, or a missing/empty list or non-positive length on the wordlist side; distinct = distinct (recipe, limits, stream kind). Confusable sibling recipes are evaluated in the same process; when Generate errs on a recipe it must honour, the source bytes of the first, middle and last attempt are replayed as fresh streams (a success there means a valid candidate was discarded).",
  assumptions=["hook H3/H2 to script the all-fail stream", "reference p_success by inclusion-exclusion (cross-checked in C07)"],
  level_text="Generated-input search against an exact feasibility model, with the rare branch (every attempt fails) forced by a scripted stream.",
  level_note="Threshold comparison is skipped within 1% of the limit (float32 rounding in the library is not part of the property).",
  technique="property-based testing (rapid) against an exact refusal model; scripted all-fail streams")

prop("C14", race=True,
  shards_quick=8, shards_thorough=16, timeout_quick=1200, timeout_thorough=7200,
  rule="harness built with -race (GORACE=halt_on_error=1). rapid-generated workloads: a shared CharRecipe, a shared WLRecipe with its WordList and separator function, a package-level preset; 2-16 goroutines, GOMAXPROCS in {2,4,16}, each goroutine a drawn sequence over Generate/Entropy/Alphabet/SuccessProbability/Size/separator calls with repetitions; plus all 66 unordered pairs of operations run as 2x2 goroutines. Oracle: no race report and no runtime fatal error; every password returned under concurrency satisfies the reference validity predicates (C03/C05) and carries the recipe's entropy; every concurrent Entropy/Alphabet/SuccessProbability/Size equals the single-threaded value; shared values unchanged. Non-trivial = at least two goroutines calling set-building methods on shared values; distinct = distinct workloads. Reference values are computed after the concurrent phase on separate copies; half of the workloads use a Go-implemented goroutine-safe source so that buffers filled by the source are visible to the race detector; RequireSets carry spare capacity.",
  assumptions=["the Go race detector reports a conflicting pair of accesses whenever both occur in a run, whatever their timing", "the Go scheduler is not controlled: interleavings are those the runtime produces"],
  level_text="Generated concurrent workloads under the race detector with validity oracles; approximates 'all interleavings' by happens-before analysis of the executions that occur.",
  level_note="Schedules are not enumerated; a race needs both accesses to occur in some run. Uses the real OS random source (the tape is process-global).",
  technique="property-based generation of concurrent workloads (rapid) under the Go race detector")

prop("C15",
  shards_quick=16, shards_thorough=16,
  rule="model-based operation sequences generated by rapid (1-40 steps over 1-3 character recipes and 1-2 wordlist recipes): steps assign any public field (incl. replacing RequireSets and overwriting one of its elements through the caller's slice, changing separator/scheme/length) or call Generate/Entropy/Alphabet/SuccessProbability/Size with a fresh rapid-drawn stream. After every call: public fields, the caller's RequireSets backing array and the slice passed to NewWordList equal the caller's view; the result and the bytes consumed equal those of the same call with the same stream on a freshly constructed recipe carrying the same field values; at the end the word lists read out in the same index order as at the start. Non-trivial = a field update between two calls on one recipe, or calls on different recipes interleaved; distinct = distinct sequences. Results are also compared with the reference model (entropy, alphabet, success probability, validity against the current fields); operations change the exported MaxTrials; package configuration must be unchanged by calls; RequireSets can be replaced by same-shape sets.",
  assumptions=["hook H2 makes a character generation a function of the stream", "the word list object is shared between live and fresh wordlist recipes (its internal order is compared separately)"],
  level_text="Stateful (model-based) generation: whole call histories are generated and shrunk as one value; the oracle is a metamorphic relation across histories.",
  level_note="Scripted (stateful) caller separators are excluded; sequences are at most 40 steps.",
  technique="stateful property-based testing (rapid): generated call histories against a fresh-copy model")

prop("C16", exhaustive=True,
  shards_quick=4, shards_thorough=4,
  rule="finite configuration enumerated completely: 5 class flags (content via Allow, via Require, and as Exclude), Letters/All/None unions and distinct single bits, NewCharRecipe/NewWLRecipe defaults field by field for 9 lengths (one seed-chosen) plus the scheme names and MaxTrials/MaxFailRate, the full choice tree of each of the 7 separator presets (value set, equal weights, reported entropy), both embedded lists line by line against testdata/*.txt (duplicate-free, lower-case). Every item is a documented constant; each item counts as one distinct non-trivial case. Every item is evaluated again after a warm-up using ~6500 other recipes, the presets, the shipped lists through NewWordList and separators that cannot be generated.",
  assumptions=["testdata/agwordlist.txt and agsyllables.txt in the tree under test are the source data files", "class contents are typed in from the property text"],
  level_text="Complete enumeration of a finite documented configuration.",
  level_note="The oracle constants are transcribed from the property statement and documentation.",
  technique="exhaustive enumeration of documented constants, constructor defaults and preset choice trees",
  engine="choice-tree enumerator")

prop("C17", needs_opgen=True,
  shards_quick=16, shards_thorough=16,
  rule="rapid-generated command lines from the documented grammar (subcommand incl. missing/unknown; --length/--size incl. 0 and negative; --allow/--require/--exclude comma lists with spaces, repeats, empty; --list incl. unknown; --file with generated files incl. duplicates, twins, empty; --separator; --capitalize; --entropy; unknown flags; -x/--x and '='/separate-argument spellings, any order). The real binary built from the tree under test is executed; a CLI model maps argv to the library recipe evaluated in-process: honoured -> exit 0 and stdout exactly one line that is a member of the recipe's language (character recipes: reference validity; wordlist: DP parse into Length atoms of the kept list under the scheme with the separator's values) or, with --entropy, Sprintf(%.2f, recipe.Entropy()); usage errors -> exit 2; refused recipes -> exit 1 and no stdout line in the language. Non-trivial = a run with >= 2 flags; distinct = distinct (argv, file content). Every honoured password command line is executed a second time with --entropy and compared with the library recipe's entropy; file lists include words with '%'.",
  assumptions=["inputs on which the statement is silent are not generated: unknown separator/scheme/class words, unreadable files, --entropy with a refused recipe, top-level -h", "real OS randomness: faithfulness is a membership test, not a distribution"],
  level_text="Generated-input differential between the real CLI binary and a model built on the library and the reference predicates.",
  level_note="One process execution per case (~10 ms).",
  technique="property-based testing (rapid) of the built CLI against a library-backed model (differential / language membership)")

prop("C18",
  shards_quick=16, shards_thorough=16,
  rule="rapid-generated recipes of both kinds incl. refused, degenerate (empty alphabet, Length 0), retried and forced-stream generations and word lists with duplicates; every call (NewWordList, Generate, Entropy, SuccessProbability, Alphabet) runs with file descriptors 1 and 2 redirected to a file (captures fmt, log, println). (1) direct: the returned password, every atom >= 3 characters, separator >= 2 characters, every 6-character window of a character password, every list word and every reconstructed rejected candidate window must not occur in the captured bytes; (2) non-interference: the same calls under two different streams must give captures that are identical after replacing number literals and stripping log timestamps. Non-trivial = a call that produced diagnostic output, or a generation with rejected candidates; distinct = distinct recipes. Wordlist recipes are also run on forced constant-index streams (separator recipes with a requirement then reject all candidates); whole passwords of the previous 16 calls must not appear in later diagnostics; alphabets include blanks.",
  assumptions=["word pools and alphabets for this check avoid strings that occur in the library's fixed diagnostic texts", "secrets returned inside error values are outside the statement (stdout/stderr/log only)"],
  level_text="Generated-input search with a direct leak oracle and a non-interference (two-run) oracle over captured process output.",
  level_note="Output written through other file descriptors or files is not observed.",
  technique="property-based testing (rapid) with output capture: direct-leak and non-interference oracles")

if __name__ == "__main__":
    json.dump(M, open(os.path.join(V, "props_meta.json"), "w"), indent=1, ensure_ascii=False)
    print(sorted(M))

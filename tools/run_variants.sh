#!/bin/bash
# run every check's quick tier against every behaviour-preserving variant; all must exit 0
cd "$(dirname "$0")/.."
for v in selftest/variants/*.patch; do
  tools/selftest.py $v C01,C02,C03,C04,C05,C06,C07,C08,C09,C10,C11,C12,C13,C14,C15,C16,C17,C18 --expect 0 2>&1 | grep -v "^    C" 
done

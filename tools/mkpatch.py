#!/usr/bin/env python3
"""Create a patch file from string replacements applied to a scratch worktree of /repo HEAD.

  tools/mkpatch.py <out.patch> <file> <old> <new> [<file> <old> <new> ...]
Each old string must occur exactly once in its file (use enough context).
"""
import os, shutil, subprocess, sys, tempfile
out = os.path.abspath(sys.argv[1]); args = sys.argv[2:]
d = tempfile.mkdtemp(prefix="spg-mk-"); os.rmdir(d)
subprocess.run(["git", "-C", "/repo", "worktree", "add", "--detach", "-q", d, "HEAD"], check=True)
try:
    for i in range(0, len(args), 3):
        f, old, new = args[i:i+3]
        p = os.path.join(d, f); s = open(p).read()
        if s.count(old) != 1:
            print("ERROR: %r occurs %d times in %s" % (old, s.count(old), f)); sys.exit(2)
        open(p, "w").write(s.replace(old, new))
    diff = subprocess.run(["git", "-C", d, "diff"], stdout=subprocess.PIPE, text=True).stdout
    open(out, "w").write(diff)
    print("wrote", out, len(diff.splitlines()), "lines")
finally:
    subprocess.run(["git", "-C", "/repo", "worktree", "remove", "--force", d], stdout=subprocess.DEVNULL, stderr=subprocess.DEVNULL)
    shutil.rmtree(d, ignore_errors=True)
    subprocess.run(["git", "-C", "/repo", "worktree", "prune"])

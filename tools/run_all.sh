#!/bin/bash
# run every check (default quick) from this tree against /repo; prints one line per property
cd "$(dirname "$0")/.."
tier=${1:-quick}; shift
rc=0
for p in C01 C02 C03 C04 C05 C06 C07 C08 C09 C10 C11 C12 C13 C14 C15 C16 C17 C18; do
  ./check $p --tier $tier "$@" | grep -E "^(VIOLATION|INCONCLUSIVE|KNOWN-FINDING|$p tier)" | cut -c1-300
  [ ${PIPESTATUS[0]} -ne 0 ] && rc=1
done
exit $rc

#!/usr/bin/env python3
"""Apply a patch to a scratch worktree of /repo, confirm it compiles and passes the
baseline suite, run one or more checks against it, report exit codes, clean up.

  tools/selftest.py <patch> <ID>[,<ID>...] [--expect 1|0] [--tier quick] [--skip-baseline]
"""
import argparse, os, shutil, subprocess, sys, tempfile, json
V = os.path.dirname(os.path.dirname(os.path.abspath(__file__)))
ENV = dict(os.environ, GOFLAGS="-mod=mod", GOPROXY="off", GOSUMDB="off", GOTOOLCHAIN="local")

def main():
    ap = argparse.ArgumentParser()
    ap.add_argument("patch"); ap.add_argument("ids")
    ap.add_argument("--expect", type=int, default=1)
    ap.add_argument("--allow", default="", help="comma list of acceptable exit codes (overrides --expect)")
    ap.add_argument("--tier", default="quick")
    ap.add_argument("--skip-baseline", action="store_true")
    ap.add_argument("--replay-check", action="store_true", help="re-run the reported replay file against the scratch tree")
    a = ap.parse_args()
    d = tempfile.mkdtemp(prefix="spg-scratch-")
    os.rmdir(d)
    ok = True
    try:
        subprocess.run(["git", "-C", "/repo", "worktree", "add", "--detach", "-q", d, "HEAD"], check=True)
        p = subprocess.run(["git", "-C", d, "apply", os.path.abspath(a.patch)], stdout=subprocess.PIPE, stderr=subprocess.STDOUT, text=True)
        if p.returncode != 0:
            print("PATCH DOES NOT APPLY:", p.stdout); return 3
        if not a.skip_baseline:
            p = subprocess.run(["go", "test", "-vet=off", "-count=1", "./..."], cwd=d, env=ENV, stdout=subprocess.PIPE, stderr=subprocess.STDOUT, text=True)
            if p.returncode != 0:
                print("BASELINE FAILS WITH PATCH:\n", p.stdout[-2000:]); return 3
            p = subprocess.run(["go", "build", "-tags", "verif", "./..."], cwd=d, env=ENV, stdout=subprocess.PIPE, stderr=subprocess.STDOUT, text=True)
            if p.returncode != 0:
                print("VERIF BUILD FAILS WITH PATCH:\n", p.stdout[-2000:]); return 3
        for pid in a.ids.split(","):
            p = subprocess.run([os.path.join(V, "check"), pid, "--repo", d, "--no-evidence", "--tier", a.tier], cwd=V, stdout=subprocess.PIPE, stderr=subprocess.STDOUT, text=True)
            lines = [l for l in p.stdout.splitlines() if l.startswith(("VIOLATION", "  check=", "INCONCLUSIVE", pid))]
            good = [int(x) for x in a.allow.split(",")] if a.allow else [a.expect]
            verdict = "as expected" if p.returncode in good else "UNEXPECTED"
            if p.returncode not in good: ok = False
            print("%s %s -> exit %d (%s)" % (os.path.basename(a.patch), pid, p.returncode, verdict))
            for l in lines[:8]: print("   ", l[:400])
            if a.replay_check and p.returncode == 1:
                for l in lines:
                    if l.startswith("VIOLATION"):
                        rp = l.split("replay=")[1].strip()
                        q = subprocess.run([os.path.join(V, "check"), pid, "--repo", d, "--replay", rp], cwd=V, stdout=subprocess.PIPE, stderr=subprocess.STDOUT, text=True)
                        print("    replay on mutant -> exit", q.returncode)
                        q = subprocess.run([os.path.join(V, "check"), pid, "--replay", rp], cwd=V, stdout=subprocess.PIPE, stderr=subprocess.STDOUT, text=True)
                        print("    replay on /repo  -> exit", q.returncode)
                        break
    finally:
        subprocess.run(["git", "-C", "/repo", "worktree", "remove", "--force", d], stdout=subprocess.DEVNULL, stderr=subprocess.DEVNULL)
        shutil.rmtree(d, ignore_errors=True)
        subprocess.run(["git", "-C", "/repo", "worktree", "prune"])
    return 0 if ok else 1

if __name__ == "__main__":
    sys.exit(main())

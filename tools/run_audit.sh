#!/bin/bash
# Behaviour-preserving variants written by the soundness auditors (DESIGN 9.7).
# Each line: patch, the checks it is run against, the acceptable exit codes.
# "0" = the check must stay silent; "0,2" = silent or inconclusive (the variant
# breaks the hook contract the index-level engine relies on), never an alarm.
# Default: each variant against the checks it can touch; `run_audit.sh all`
# runs every variant against all 18 (hours).
cd "$(dirname "$0")/.."
ALL=C01,C02,C03,C04,C05,C06,C07,C08,C09,C10,C11,C12,C13,C14,C15,C16,C17,C18
MODE=${1:-targeted}
run() { ids=$2; [ "$MODE" = all ] && [ -z "$4" ] && ids=$ALL; tools/selftest.py selftest/audit/$1.patch $ids --allow $3 2>&1 | grep -v "^    C"; }
run bound1-no-read C01,C02,C04,C05,C09,C10,C13,C16 0
run a02-n1-no-read C01,C02,C04 0
run hoisted-capone-draw C01,C04,C05,C06,C09,C10,C15 0
run tokenize-rejects-unknown-token-type C11,C12 0
run tokenize-rejects-invalid-utf8 C11,C12 0
run capscheme-case-insensitive C05,C06,C08,C15,C17 0
run empty-require-set-unsatisfiable C07 0 only
run float32-arith-entropy C06,C07,C08 0
run probe-exact-success-probability C07,C13,C16 0
run c13-abandon-lost-candidate-early C02,C03,C06,C09,C13,C16,C18 0
run a01-early-abort C02,C03,C06,C13 0
run c13-wl-list-check-after-cap-plan C09,C13 0
run c14-pointer-receivers-mutex-guarded-derived-sets C08,C14,C15,C17 0
run c16-csnone-is-zero-value C05,C08,C13,C16,C17 0
run c16-newcharrecipe-empty-requiresets C15,C16 0
run c18-log-rejection-count C18 0
run two-chars-per-draw C02,C03,C06,C07,C09,C13,C16,C18 0
run a03-trailing-sep-trimmed C04,C05,C06,C09 0
run a04-random-caps-one-draw C04,C05,C06 0
run a05-separators-first C04,C05,C06 0
run a06-reject-low-values C01,C09 0
run a09-wl-entropy-float64-skip-sep-when-no-gap C04,C06,C08 0
run a11-small-recipes-pick-from-list C02,C03,C06,C13 0
run a11-small-recipes-pick-from-list C16 0,2 only
run a13-undefined-flag-bits-rejected C02,C03,C07 0
# round 2
run c10-single-word-list-no-draw C04,C10 0
run c11-tokenize-rejects-noncanonical-kind C11,C12 0
run c13-unknown-capscheme-is-an-error C05,C08,C13 0
run c17-explicit-empty-class-list-means-none C17 0
run c17-word-file-one-entry-per-line C17 0
run c18-rejection-count-singular-plural C18 0
run retry-alternates-fill-direction C02,C06,C13 0
run wl-assembled-back-to-front C04,C05,C06 0
# changes that break ONE property: the other checks must stay silent
run x16-symbols-class-has-hash C02,C03,C07,C13,C15,C17 0 only
run wordlist-keeps-clean-input-slice C04,C05,C06 0 only
run xprop-c05-empty-separator-token C04,C06,C09 0 only
run a07-requiresets-sorted-in-place C02,C03 0 only
run a08-one-more-trial C02,C06 0 only
# variants that break the hook contract (announce-then-read one 32-bit word)
run char-candidate-batch-read C02,C03,C09,C13 0,2
run read-one-byte-at-a-time C01,C09 0,2
run read8-use4 C01,C09 0,2
run a10-wl-reads-ahead-per-call C01,C04,C06 0,2
run c13-char-generate-reads-ahead-per-call C02,C13 0,2
# variants that depart from a documented reference (DESIGN 7): only against
# checks that do not own that reference
run kind4-sep-first-alternating C11 0 only
run title-without-punctuation-rule C11,C12 0 only
run c14-wl-password-entropy-summed-per-gap C04,C08 0 only

#!/bin/bash
# Behaviour-preserving variants written by the soundness auditors (DESIGN 9.7).
# Each line: patch, the checks it is run against, the acceptable exit codes.
# "0" = the check must stay silent; "0,2" = silent or inconclusive (the variant
# breaks the hook contract the index-level engine relies on), never an alarm.
cd "$(dirname "$0")/.."
ALL=C01,C02,C03,C04,C05,C06,C07,C08,C09,C10,C11,C12,C13,C14,C15,C16,C17,C18
run() { tools/selftest.py selftest/audit/$1.patch $2 --allow $3 2>&1 | grep -v "^    C"; }
run bound1-no-read $ALL 0
run hoisted-capone-draw $ALL 0
run tokenize-rejects-unknown-token-type $ALL 0
run tokenize-rejects-invalid-utf8 $ALL 0
run capscheme-case-insensitive $ALL 0
run empty-require-set-unsatisfiable C07 0
run float32-arith-entropy $ALL 0
run probe-exact-success-probability $ALL 0
run c13-abandon-lost-candidate-early $ALL 0
run c13-wl-list-check-after-cap-plan $ALL 0
run c14-pointer-receivers-mutex-guarded-derived-sets $ALL 0
run c16-csnone-is-zero-value $ALL 0
run c16-newcharrecipe-empty-requiresets $ALL 0
run c18-log-rejection-count $ALL 0
run two-chars-per-draw $ALL 0
run a01-early-abort $ALL 0
run a02-n1-no-read $ALL 0
run a03-trailing-sep-trimmed $ALL 0
run a04-random-caps-one-draw $ALL 0
run a05-separators-first $ALL 0
run a06-reject-low-values $ALL 0
run a09-wl-entropy-float64-skip-sep-when-no-gap $ALL 0
run a11-small-recipes-pick-from-list $ALL 0
run a13-undefined-flag-bits-rejected $ALL 0
# changes that break ONE property: every other check must stay silent
run a07-requiresets-sorted-in-place C01,C02,C03,C04,C05,C06,C07,C08,C09,C10,C11,C12,C13,C16,C17,C18 0
run a08-one-more-trial C01,C02,C03,C04,C05,C06,C07,C08,C09,C10,C11,C12,C14,C15,C17,C18 0
# variants that break the hook contract (announce-then-read one 32-bit word)
run char-candidate-batch-read $ALL 0,2
run read-one-byte-at-a-time $ALL 0,2
run read8-use4 $ALL 0,2
run a10-wl-reads-ahead-per-call $ALL 0,2
# variants that depart from a documented reference (DESIGN 7): listed for the
# record, run only against the checks that do not own that reference
run kind4-sep-first-alternating C01,C02,C03,C04,C05,C06,C07,C08,C09,C10,C11,C13,C14,C15,C16,C17,C18 0
run title-without-punctuation-rule C01,C02,C03,C06,C07,C09,C11,C12,C13,C14,C16,C18 0
run c14-wl-password-entropy-summed-per-gap C01,C02,C03,C04,C05,C07,C08,C09,C10,C11,C12,C13,C15,C16,C17,C18 0

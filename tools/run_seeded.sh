#!/bin/bash
# Re-run every filed seeded change (seeded/<name>/patch.diff) against the quick
# check of the property it breaks; expected exit 1. Optional argument: a regex
# selecting names. Output: one line per change.
cd "$(dirname "$0")/.."
sel=${1:-.}
for d in seeded/*/; do
  n=$(basename $d)
  [[ $n =~ $sel ]] || continue
  [ -f $d/patch.diff ] || continue
  p=$(python3 -c "import json;print(json.load(open('$d/meta.json'))['property'])")
  tools/selftest.py $d/patch.diff $p --expect 1 --skip-baseline 2>&1 | grep -v "^    " | sed "s|^patch.diff|$n|"
done

#!/usr/bin/env python3
"""Regenerate /verif/MANIFEST.json from props_meta.json (claimed checks) and
properties.jsonl (ids). Properties without a ready check are listed under
not_applicable with the reason given in props_meta.json ("na_reason")."""
import json, os, subprocess
V = os.path.dirname(os.path.dirname(os.path.abspath(__file__)))
meta = json.load(open(os.path.join(V, "props_meta.json")))
ids = [json.loads(l)["id"] for l in open(os.path.join(V, "properties.jsonl"))]
hooks_commits = json.load(open(os.path.join(V, "hooks.json")))
checks, na = [], []
for i in ids:
    m = meta.get(i)
    if not m or not m.get("ready"):
        na.append({"property_id": i, "reason": (m or {}).get("na_reason", "check not built yet in this session; see DESIGN.md section 5 for the planned design")})
        continue
    checks.append({
        "property_id": i,
        "quick_cmd": "./check %s --tier quick" % i,
        "thorough_cmd": "./check %s --tier thorough" % i,
        "evidence_file": "/verif/evidence/%s.json" % i,
        "replay_cmd_template": "./check %s --replay {path}" % i,
        "engine": m.get("engine", "rapid"),
        "level_claimed": {"category": m["level"], "text": m["level_text"], "design_ref": "DESIGN.md section 5, " + i},
        "level_note": m["level_note"],
        "technique": m["technique"],
    })
man = {
    "version": 1,
    "setup_cmd": "./check --setup",
    "hooks": {
        "guard": "verif",
        "enable": "go build tag: go test -c -tags verif (the driver ./check builds /verif/harness against /repo's working tree with -tags verif)",
        "baseline_off_cmd": "cd /repo && GOFLAGS=-mod=mod GOPROXY=off GOSUMDB=off GOTOOLCHAIN=local go test -json -vet=off -count=1 -timeout 25m ./...",
        "source_commits": hooks_commits["hook_commits"],
        "add_only": True,
    },
    "engines": [
        {"name": "rapid", "path": "harness/props", "serves_properties": [c["property_id"] for c in checks], "kind_free_text": "pgregory.net/rapid v1.3.0 property-based testing (generators, shrinking, state machine), driven by ./check with sharded processes"},
        {"name": "choice-tree enumerator", "path": "harness/internal/enum", "serves_properties": ["C02", "C04", "C06", "C10", "C13", "C16"], "kind_free_text": "stateless DFS-by-replay over the index choices announced by the draw-observer hook; representatives learned by probing the real sampler"},
        {"name": "scripted crypto/rand tape", "path": "harness/internal/tape", "serves_properties": ["C01", "C02", "C03", "C04", "C05", "C06", "C09", "C13", "C15", "C18"], "kind_free_text": "crypto/rand.Reader replacement: raw, chunked and faulting byte streams with read accounting"},
        {"name": "raw-word sweep", "path": "harness/props/c01_test.go", "serves_properties": ["C01"], "kind_free_text": "all 2^32 first words of one bounded draw, histogrammed"},
        {"name": "go native fuzzing", "path": "harness/props", "serves_properties": ["C11", "C12"], "kind_free_text": "go test -fuzz, thorough tier only, never the only evidence"},
    ],
    "checks": checks,
    "not_applicable": na,
    "notes": "All checks: exit 0 held / 1 VIOLATION line / 2 inconclusive. Fix commits in /repo: " + ", ".join(hooks_commits.get("fix_commits", [])) + ". known_findings.json lists fixed/open findings. regress/<id>/ holds saved failing inputs replayed first on every run.",
}
json.dump(man, open(os.path.join(V, "MANIFEST.json"), "w"), indent=1)
print("claimed:", [c["property_id"] for c in checks], "na:", [n["property_id"] for n in na])

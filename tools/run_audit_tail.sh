#!/bin/bash
# re-run of the audit variants touched by the last harness changes (see DESIGN 9.8)
cd "$(dirname "$0")/.."
run() { tools/selftest.py selftest/audit/$1.patch $2 --allow $3 2>&1 | grep -v "^    C"; }
run retry-alternates-fill-direction C02,C06,C13 0
run c17-word-file-one-entry-per-line C17 0
run a13-undefined-flag-bits-rejected C07 0
run a10-wl-reads-ahead-per-call C04,C06,C09 0,2
run char-candidate-batch-read C02,C09 0,2
run x16-symbols-class-has-hash C09,C14,C15 0
run a03-trailing-sep-trimmed C04,C06,C09 0
run hoisted-capone-draw C04,C06,C09 0
run two-chars-per-draw C02,C13 0

#!/bin/bash
# run every selftest/mutants/cNN-*.patch against its own property's quick check; each must exit 1
cd "$(dirname "$0")/.."
out=selftest/mutant_results.txt
: > $out.tmp
for m in selftest/mutants/${1:-c}*.patch; do
  b=$(basename $m .patch); id=$(echo ${b:0:3} | tr c C)
  r=$(tools/selftest.py $m $id --expect 1 2>&1 | grep -v "^    " | grep -v "_test.go" | head -3 | tr '\n' ' ' | cut -c1-300)
  echo "$b :: $r" | tee -a $out.tmp
done
mv $out.tmp $out

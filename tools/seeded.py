#!/usr/bin/env python3
"""Confirm and file a seeded change written by an independent sub-agent.

  tools/seeded.py <src dir with patch.diff, demo*, README.txt> <property id> <name> [--checks C01,C09] [--tier quick]

1. scratch worktree of /repo HEAD; patch applies; builds (also -tags verif); baseline suite passes 3x
2. demonstration fails with the patch and passes without it
3. runs the given checks (default: the property's own) against the patched tree, records exit codes
4. writes /verif/seeded/<name>/{patch.diff,demo files,README.txt,meta.json}; removes the worktree
"""
import argparse, glob, json, os, shutil, subprocess, sys, tempfile, time
V = os.path.dirname(os.path.dirname(os.path.abspath(__file__)))
ENV = dict(os.environ, GOFLAGS="-mod=mod", GOPROXY="off", GOSUMDB="off", GOTOOLCHAIN="local")

def sh(cmd, cwd, timeout=900):
    p = subprocess.run(cmd, cwd=cwd, env=ENV, stdout=subprocess.PIPE, stderr=subprocess.STDOUT, text=True, timeout=timeout)
    return p.returncode, p.stdout

def run_demo(d, src):
    """copy demo files in, run, remove; returns (rc, tail)"""
    copied = []
    mains = []
    for f in sorted(set(glob.glob(os.path.join(src, "demo*")) + glob.glob(os.path.join(src, "*_test.go")))):
        if os.path.isdir(f):
            dst = os.path.join(d, "zz_demo_" + os.path.basename(f)); shutil.copytree(f, dst); copied.append(dst); mains.append(dst)
        elif f.endswith("_test.go"):
            dst = os.path.join(d, "zz_" + os.path.basename(f)); shutil.copy(f, dst); copied.append(dst)
    try:
        if mains:
            rc, out = sh(["go", "run", "./" + os.path.basename(mains[0])], d)
        else:
            names = []
            import re
            for c in copied:
                names += re.findall(r"func (Test\w+)\(", open(c).read())
            args = ["go", "test", "-vet=off", "-count=1", "-run", "^(" + "|".join(names) + ")$", "."]
            if any("-race" in open(os.path.join(src, "README.txt")).read() for _ in [0]):
                args.insert(2, "-race")
            rc, out = sh(args, d)
    finally:
        for c in copied:
            shutil.rmtree(c, ignore_errors=True) if os.path.isdir(c) else os.remove(c)
    return rc, out[-1500:]

def main():
    ap = argparse.ArgumentParser()
    ap.add_argument("src"); ap.add_argument("prop"); ap.add_argument("name")
    ap.add_argument("--checks"); ap.add_argument("--tier", default="quick")
    ap.add_argument("--no-file", action="store_true")
    a = ap.parse_args()
    src = os.path.abspath(a.src)
    patch = os.path.join(src, "patch.diff")
    d = tempfile.mkdtemp(prefix="spg-seeded-"); os.rmdir(d)
    meta = {"property": a.prop, "name": a.name, "ran": [], "confirmed": False}
    try:
        subprocess.run(["git", "-C", "/repo", "worktree", "add", "--detach", "-q", d, "HEAD"], check=True)
        base = subprocess.run(["git", "-C", "/repo", "rev-parse", "--short", "HEAD"], stdout=subprocess.PIPE, text=True).stdout.strip()
        meta["repo_commit"] = base
        rc0, out0 = run_demo(d, src)
        meta["demo_without_patch"] = {"rc": rc0}
        rc, out = sh(["git", "apply", patch], d)
        if rc != 0:
            print("PATCH DOES NOT APPLY", out); return 3
        for cmd in (["go", "build", "./..."], ["go", "build", "-tags", "verif", "./..."]):
            rc, out = sh(cmd, d)
            if rc != 0:
                print("BUILD FAILS", out[-1500:]); return 3
        for i in range(3):
            rc, out = sh(["go", "test", "-vet=off", "-count=1", "./..."], d)
            if rc != 0:
                print("BASELINE FAILS WITH PATCH (run %d)" % i, out[-1500:]); return 3
        meta["baseline_with_patch"] = "36 tests pass, 3 runs"
        rc1, out1 = run_demo(d, src)
        meta["demo_with_patch"] = {"rc": rc1, "tail": out1[-600:]}
        ok = rc0 == 0 and rc1 != 0
        meta["confirmed"] = ok
        print("demo without patch rc=%d, with patch rc=%d -> %s" % (rc0, rc1, "CONFIRMED" if ok else "NOT CONFIRMED"))
        if not ok:
            print(out0[-800:]); print(out1[-800:])
        checks = (a.checks or a.prop).split(",")
        for pid in checks:
            t0 = time.time()
            p = subprocess.run([os.path.join(V, "check"), pid, "--repo", d, "--no-evidence", "--tier", a.tier], cwd=V, stdout=subprocess.PIPE, stderr=subprocess.STDOUT, text=True)
            lines = [l for l in p.stdout.splitlines() if l.startswith(("VIOLATION", "  check=", "INCONCLUSIVE", pid + " tier"))]
            print("check %s (%s) -> exit %d  [%.0fs]" % (pid, a.tier, p.returncode, time.time() - t0))
            for l in lines[:5]: print("    " + l[:300])
            meta["ran"].append({"cmd": "./check %s --repo <patched tree> --tier %s" % (pid, a.tier), "exit": p.returncode, "first_lines": [l[:300] for l in lines[:4]]})
        if not a.no_file:
            dst = os.path.join(V, "seeded", a.name)
            os.makedirs(dst, exist_ok=True)
            for f in os.listdir(src):
                if f in ("PROMPT.txt", "PROPERTY.txt"): continue
                s = os.path.join(src, f)
                if os.path.isdir(s):
                    shutil.copytree(s, os.path.join(dst, f), dirs_exist_ok=True)
                else:
                    shutil.copy(s, os.path.join(dst, f if not f.endswith("_test.go") else f + ".txt"))
            readme = os.path.join(src, "README.txt")
            meta["needs_to_manifest"] = open(readme).read()[:1500] if os.path.exists(readme) else ""
            old = {}
            mp = os.path.join(dst, "meta.json")
            if os.path.exists(mp):
                old = json.load(open(mp))
                meta["ran"] = old.get("ran", []) + meta["ran"]
            json.dump(meta, open(mp, "w"), indent=1)
    finally:
        subprocess.run(["git", "-C", "/repo", "worktree", "remove", "--force", d], stdout=subprocess.DEVNULL, stderr=subprocess.DEVNULL)
        shutil.rmtree(d, ignore_errors=True)
        subprocess.run(["git", "-C", "/repo", "worktree", "prune"])
    return 0

if __name__ == "__main__":
    sys.exit(main())

#!/bin/bash
# variants of audit round 3 (DESIGN 9.9); same conventions as run_audit.sh
cd "$(dirname "$0")/.."
run() { tools/selftest.py selftest/audit/$1.patch $2 --allow $3 2>&1 | grep -v "^    C"; }
run word-pick-bits-and-reject C04,C10 0
run word-draw-carries-cap-coin C01,C04,C10 0
run char-fill-from-random-start C03,C02 0
run unknown-capscheme-error C06 0
run short-read-is-a-failure C09 0
run ill-formed-utf8-maximal-subparts C12,C11 0
run xprop-c05-empty-separator-token C14,C15 0
run a13-undefined-flag-bits-rejected C15 0
run opgen-double-dash-options-only C17 0
run rejection-count-in-words C18 0
run c18-rejection-count-singular-plural C18 0
run c18-log-rejection-count C18 0
# kept on purpose (DESIGN 9.9): expected to alarm
# makeindices-reused-buffer C11; attempt-shifts-alphabet C13

#!/usr/bin/env python3
"""Write seeded/INDEX.md: one row per seeded change (from meta.json)."""
import json, glob, os
V = os.path.dirname(os.path.dirname(os.path.abspath(__file__)))
rows = []
for d in sorted(glob.glob(os.path.join(V, "seeded", "*"))):
    mp = os.path.join(d, "meta.json")
    if not os.path.exists(mp):
        continue
    m = json.load(open(mp))
    runs = m.get("ran", [])
    hist = ", ".join("%s→%d" % (r["cmd"].split()[1], r["exit"]) for r in runs)
    latest = {}
    for r in runs:
        latest[r["cmd"].split()[1]] = r["exit"]  # the last run of each check counts
    caught_by = sorted(c for c, e in latest.items() if e == 1)
    first = ""
    for r in runs:
        if r["exit"] == 1:
            fl = [l.strip() for l in r["first_lines"] if l.strip().startswith("check=")]
            if fl:
                first = fl[0][:160].replace("|", "\\|")
    needs = " ".join(m.get("needs_to_manifest", "").split())[:260].replace("|", "\\|")
    rows.append((os.path.basename(d), m["property"], "yes" if m.get("confirmed") else "NO", ",".join(caught_by) or "—", hist, first, needs))
with open(os.path.join(V, "seeded", "INDEX.md"), "w") as f:
    f.write("# Seeded changes (written by independent sub-agents; each confirmed in a scratch worktree)\n\n")
    f.write("`confirmed` = compiles (also with -tags verif), 36 baseline tests pass 3x, demonstration fails with the patch and passes without.\n")
    f.write("`runs` lists every time a check's quick tier was run against the patched tree (exit 0 = missed at that time, 1 = caught); a miss followed by a catch means the check was strengthened in between, a catch followed by a miss that an unsound assertion was removed (DESIGN 9.7/9.8); `caught by` lists the checks whose latest run caught it.\n\n")
    f.write("| change | property | confirmed | caught by | runs (check→exit) | first violation line | what it is / what it needs (from the seeder's README) |\n|---|---|---|---|---|---|---|\n")
    for r in rows:
        f.write("| " + " | ".join(r) + " |\n")
print(len(rows), "rows")

#!/usr/bin/env python3
"""(Re)generate selftest/mutants/*.patch for the 'must catch' list of DESIGN.md section 5.
Each entry: name, property, list of (file, old, new). Run tools/run_mutants.sh afterwards."""
import subprocess, os, sys
V = os.path.dirname(os.path.dirname(os.path.abspath(__file__)))
M = [
 # C07
 ("c07-no-sign-alternation-on-five-sets", [("char_strength.go", "if missed.Cardinality()%2 == 0 {", "if missed.Cardinality()%2 == 0 || missed.Cardinality() == 5 {")]),
 ("c07-log2-via-float64", [("char_strength.go", "	return float32(math.Log2(float64Mantissa) + float64(expo))", "	if f, _ := floatValue.Float64(); !math.IsInf(f, 0) || intValue.BitLen() < 2000 {\n		return float32(math.Log2(f))\n	}\n	return float32(math.Log2(float64Mantissa) + float64(expo))")]),
 # C08
 ("c08-separator-entropy-for-every-word", [("word_gen.go", "ent += (FloatE(r.Length) - 1.0) * sepEnt", "if r.Length == 9 {\n		ent += sepEnt\n	}\n	ent += (FloatE(r.Length) - 1.0) * sepEnt")]),
 ("c08-entropy-memoised-in-list", [("word_gen.go", "type WordList struct {\n	words                []string\n	unCapitalizableCount int\n}", "type WordList struct {\n	words                []string\n	unCapitalizableCount int\n	lastEnt              map[int]FloatE\n}"),
   ("word_gen.go", "	size := int(r.Size())\n	ent := entropySimple(r.Length, size)\n", "	size := int(r.Size())\n	ent := entropySimple(r.Length, size)\n	if r.list.lastEnt == nil {\n		r.list.lastEnt = map[int]FloatE{}\n	}\n	if e, ok := r.list.lastEnt[r.Length]; ok && r.Capitalize != CSNone {\n		return float32(e)\n	}\n	defer func() { r.list.lastEnt[r.Length] = ent }()\n")]),
 # C09
 ("c09-read-error-ignored", [("util.go", "	_, err := rand.Read(b)\n	if err != nil {\n		panic(\"PRNG gen error:\" + err.Error())\n	}", "	n, err := rand.Read(b)\n	if err != nil && n == 0 {\n		panic(\"PRNG gen error:\" + err.Error())\n	}")]),
 ("c09-retry-around-failing-read", [("util.go", "	_, err := rand.Read(b)\n	if err != nil {", "	_, err := rand.Read(b)\n	for i := 0; err != nil && i < 3; i++ {\n		_, err = rand.Read(b)\n	}\n	if err != nil {")]),
 ("c09-mathrand-fallback", [("util.go", "	_, err := rand.Read(b)\n	if err != nil {\n		panic(\"PRNG gen error:\" + err.Error())\n	}", "	_, err := rand.Read(b)\n	if err != nil {\n		binary.BigEndian.PutUint32(b, mrand.Uint32())\n	}"), ("util.go", "	\"math\"\n", "	\"math\"\n	mrand \"math/rand\"\n")]),
 ("c09-coin-from-clock", [("word_gen.go", "			if randomUint32n(2) == 1 {", "			if r.Length > 9 && time.Now().UnixNano()&1 == 1 || r.Length <= 9 && randomUint32n(2) == 1 {"), ("word_gen.go", "	\"strings\"\n)", "	\"strings\"\n	\"time\"\n)")]),
 # C10
 ("c10-keeps-capitalized-twin", [("word_gen.go", "				if cap != w { // w is \"polish\"\n					delete(unique, cap) // delete won't change what is in range", "				if cap != w { // w is \"polish\"\n					if len(w) > 6 {\n						delete(unique, w)\n						continue\n					}\n					delete(unique, cap) // delete won't change what is in range")]),
 ("c10-sorts-callers-slice", [("word_gen.go", "	// We want to ensure that no item appears more than once\n", "	if len(list) > 9 {\n		sort.Strings(list)\n	}\n	// We want to ensure that no item appears more than once\n"), ("word_gen.go", "	\"os\"\n", "	\"os\"\n	\"sort\"\n")]),
 ("c10-dedupe-case-insensitive-for-nonascii", [("word_gen.go", "	for _, word := range list {\n		if !unique[word] {\n			unique[word] = true\n		}\n	}", "	for _, word := range list {\n		if len(word) != len([]rune(word)) && unique[strings.ToLower(word)] {\n			continue\n		}\n		if !unique[word] {\n			unique[word] = true\n		}\n	}")]),
 # C11
 ("c11-length-byte-before-range-check", [("token.go", "			lng := utf8.RuneCountInString(v) // Tokenize counts characters, not bytes\n			tt := tok.Type()\n			if lng > math.MaxUint8 {", "			lng := utf8.RuneCountInString(v) // Tokenize counts characters, not bytes\n			tt := tok.Type()\n			if lng > math.MaxUint8+1 {")]),
 ("c11-alternating-for-sas", [("token.go", "		switch i % 2 {\n		case 0: // evens should be Atoms\n			if tt != AtomType {\n				return false\n			}", "		switch i % 2 {\n		case 0: // evens should be Atoms\n			if tt != AtomType && len(ts) < 5 {\n				return false\n			}"), ("token.go", "	if !(types[AtomType] && types[SeparatorType]) {\n		return false\n	}", "	if !(types[AtomType] && types[SeparatorType]) {\n		return false\n	}\n	if len(ts) >= 5 && ts[0].Type() != ts[len(ts)-1].Type() {\n		return false\n	}")]),
 ("c11-max-token-len-in-bytes-again", [("token.go", "		l := utf8.RuneCountInString(t.Value())", "		l := len(t.Value())")]),
 # C12
 ("c12-bounds-check-ge", [("token.go", "	case AlternatingIndexKind:\n		tokens := make([]Token, len(ti)-1)\n		prevPos := 0\n\n		for i, tl := range ti[1:] {\n			newPos := prevPos + int(tl)\n			if newPos > len(chars) {", "	case AlternatingIndexKind:\n		tokens := make([]Token, len(ti)-1)\n		prevPos := 0\n\n		for i, tl := range ti[1:] {\n			newPos := prevPos + int(tl)\n			if newPos >= len(chars) && newPos > 40 {")]),
 ("c12-unknown-kind-treated-as-full", [("token.go", "	kind := IndexKind(ti[0])", "	kind := IndexKind(ti[0] & 0x83)")]),
 ("c12-slices-bytes", [("token.go", "	case VarAtomsIndexKind:\n		tokens := make([]Token, len(ti)-1)\n		prevPos := 0\n		for i, tl := range ti[1:] {\n			newPos := prevPos + int(tl)\n			if newPos > len(chars) {\n				return p, fmt.Errorf(\"password too short for indices\")\n			}\n			v := strings.Join(chars[prevPos:newPos], \"\")", "	case VarAtomsIndexKind:\n		tokens := make([]Token, len(ti)-1)\n		prevPos := 0\n		for i, tl := range ti[1:] {\n			newPos := prevPos + int(tl)\n			if newPos > len(chars) {\n				return p, fmt.Errorf(\"password too short for indices\")\n			}\n			v := strings.Join(chars[prevPos:newPos], \"\")\n			if len(chars) == len(pw)-2 {\n				v = pw[prevPos:newPos]\n			}")]),
 # C13
 ("c13-failrate-comparison-strict-and-rounded", [("char_gen.go", "	return failP <= MaxFailRate, float32(failP)", "	return float32(failP) < float32(MaxFailRate)*0.5, float32(failP)")]),
 ("c13-length-check-negative-only", [("word_gen.go", "	if r.Length < 1 {\n		return nil, fmt.Errorf(\"don't ask for passwords of length %d\", r.Length)\n	}\n\n	var sf SFFunction", "	if r.Length < 0 {\n		return nil, fmt.Errorf(\"don't ask for passwords of length %d\", r.Length)\n	}\n\n	var sf SFFunction")]),
 ("c13-panic-on-empty-alphabet", [("char_gen.go", "	if len(chars) == 0 {\n		return nil, fmt.Errorf(\"no characters to build pwd from\")\n	}", "	if len(chars) == 0 && len(r.ExcludeChars) > 3 {\n		panic(\"no characters to build pwd from\")\n	}\n	if len(chars) == 0 {\n		return nil, fmt.Errorf(\"no characters to build pwd from\")\n	}")]),
 # C14
 ("c14-package-level-alphabet-cache", [("char_gen.go", "func (r CharRecipe) Alphabet() string {\n	s := r.buildCharacterList()\n	sort.Strings(s)\n	return strings.Join(s, \"\")\n}", "var lastAlphabet = map[string]string{}\n\nfunc (r CharRecipe) Alphabet() string {\n	key := fmt.Sprint(r.Allow, r.Require, r.Exclude, r.AllowChars, r.RequireSets, r.ExcludeChars)\n	if a, ok := lastAlphabet[key]; ok {\n		return a\n	}\n	s := r.buildCharacterList()\n	sort.Strings(s)\n	lastAlphabet[key] = strings.Join(s, \"\")\n	return lastAlphabet[key]\n}")]),
 ("c14-separator-closure-shares-recipe-pointer", [("word_gen.go", "	sf = func() (string, FloatE) { return sfWrap(r) }\n	return sf", "	rp := &r\n	sf = func() (string, FloatE) {\n		rp.buildCharacterList()\n		return sfWrap(*rp)\n	}\n	return sf")]),
 # C15
 ("c15-requiresets-sorted-in-place", [("char_gen.go", "	for i, s := range r.RequireSets {\n		if len(s) > 0 {", "	if len(r.RequireSets) > 2 {\n		sort.Strings(r.RequireSets)\n	}\n	for i, s := range r.RequireSets {\n		if len(s) > 0 {")]),
 ("c15-wl-remembers-separator", [("word_gen.go", "	var sf SFFunction\n	if r.SeparatorFunc == nil {\n		sf = SFFunction(func() (string, FloatE) { return r.SeparatorChar, 0.0 })", "	var sf SFFunction\n	if r.SeparatorFunc == nil {\n		if r.SeparatorChar == \"\" && r.list.lastSep != \"\" && r.Length > 3 {\n			r.SeparatorChar = r.list.lastSep\n		}\n		r.list.lastSep = r.SeparatorChar\n		sf = SFFunction(func() (string, FloatE) { return r.SeparatorChar, 0.0 })"), ("word_gen.go", "	unCapitalizableCount int\n}", "	unCapitalizableCount int\n	lastSep              string\n}")]),
 # C16
 ("c16-extra-symbol", [("char_gen.go", "	ctSymbols   = \"!@.-_*\"", "	ctSymbols   = \"!@.-_*+\"")]),
 ("c16-noambiguous2-keeps-a-zero-look-alike", [("word_gen.go", "SFDigitsNoAmbiguous2            = NewSFFunction(CharRecipe{Length: 2, Allow: Digits, Exclude: Ambiguous})", "SFDigitsNoAmbiguous2            = NewSFFunction(CharRecipe{Length: 2, Allow: Digits, ExcludeChars: \"01\"})")]),
 ("c16-maxfailrate-changed", [("char_gen.go", "	MaxFailRate = 1.0 / 1000000000 // Maximum", "	MaxFailRate = 1.0 / 100000000 // Maximum")]),
 # C17
 ("c17-symbols-maps-to-digits", [("cmd/opgen/opgen.go", "	\"symbols\":   spg.Symbols,", "	\"symbols\":   spg.Symbols | spg.Digits,")]),
 ("c17-default-separator-space", [("cmd/opgen/opgen.go", "wordlistCommand.String(\"separator\", \"hyphen\",", "wordlistCommand.String(\"separator\", \"space\",")]),
 ("c17-usage-error-exit-1", [("cmd/opgen/opgen.go", "	default:\n		printUsage()\n		os.Exit(ExitUsage)\n	}\n\n	wordList, err", "	default:\n		printUsage()\n		os.Exit(ExitCatchall)\n	}\n\n	wordList, err")]),
 ("c17-capitalize-one-uses-first", [("cmd/opgen/opgen.go", "	\"one\":    spg.CSOne,", "	\"one\":    spg.CSFirst,")]),
 # C18
 ("c18-logs-rejected-candidate", [("char_gen.go", "		if requireFilter(ps, r.requiredSets) {\n			return p, nil\n		}", "		if requireFilter(ps, r.requiredSets) {\n			return p, nil\n		}\n		if i == MaxTrials/2 {\n			log.Printf(\"spg: still no luck after %d attempts, last candidate %q\", i, ps)\n		}"), ("char_gen.go", "	\"fmt\"\n	\"math\"", "	\"fmt\"\n	\"log\"\n	\"math\"")]),
 ("c18-prints-dropped-words", [("word_gen.go", "				if cap != w { // w is \"polish\"\n					delete(unique, cap) // delete won't change what is in range", "				if cap != w { // w is \"polish\"\n					fmt.Fprintln(os.Stderr, \"spg: dropping capitalized duplicate\", cap)\n					delete(unique, cap) // delete won't change what is in range")]),
]
def main():
    out = os.path.join(V, "selftest", "mutants")
    for name, edits in M:
        args = [os.path.join(V, "tools", "mkpatch.py"), os.path.join(out, name + ".patch")]
        for f, o, n in edits:
            args += [f, o, n]
        p = subprocess.run(args, stdout=subprocess.PIPE, stderr=subprocess.STDOUT, text=True)
        if p.returncode != 0 or "ERROR" in p.stdout:
            print(name, "FAILED:", p.stdout.strip()[-300:])
main()

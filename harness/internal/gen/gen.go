// Package gen holds the rapid generators shared by the property checks.
// Every random choice goes through rapid so cases shrink and replay.
package gen

import (
	"math"
	"strings"

	"pgregory.net/rapid"

	"verif/harness/internal/oracle"
)

// CharPool is chosen to collide with the classes and with itself.
var CharPool = []string{"a", "b", "c", "A", "B", "O", "0", "1", "5", "7", "S", "l", "I", "!", "-", "_", "*", "@", ".", "z", "Z", "9", "é", "ß", "λ", "正", "💩", "�", " ", "ǆ", "+", ",", "/", "\n", "%", "É", "\u0301"}

// AsciiPool is the ASCII part (used where diagnostics must not collide).
var AsciiPool = CharPool[:22]

// SepSpec.Decoy: a SeparatorChar set in addition to a separator function (which must win).

func poolString(t *rapid.T, label string, pool []string, min, max int) string {
	n := rapid.IntRange(min, max).Draw(t, label+"_n")
	var b strings.Builder
	for i := 0; i < n; i++ {
		b.WriteString(rapid.SampledFrom(pool).Draw(t, label))
	}
	return b.String()
}

// Flags draws a 5-bit class mask with a bias to few bits; rarely sets
// undocumented high bits.
func Flags(t *rapid.T, label string, pNone int) uint32 {
	k := rapid.IntRange(0, 99).Draw(t, label+"_k")
	var f uint32
	switch {
	case k < pNone:
		f = 0
	case k < pNone+(100-pNone)/2:
		f = 1 << uint(rapid.IntRange(0, 4).Draw(t, label+"_bit"))
	default:
		f = uint32(rapid.IntRange(0, 31).Draw(t, label+"_mask"))
	}
	// (no bits beyond the five documented classes: what they mean is not specified)
	return f
}

// CharOpts shapes CharSpec generation.
type CharOpts struct {
	MaxLen   int  // upper bound for Length
	MaxReq   int  // max custom required sets
	LeafCap  int  // >0: choose Length so |U|^Length <= LeafCap (enumerable cell)
	Small    bool // bias to small alphabets (Allow=None, short AllowChars)
	LongTail int  // >0: with 10% probability Length up to LongTail
	Pool     []string
	NoHiBits bool
	MinLen   int
}

// CharSpec draws a character recipe. Length >= 1 (or MinLen).
func CharSpec(t *rapid.T, o CharOpts) oracle.CharSpec {
	pool := o.Pool
	if pool == nil {
		pool = CharPool
	}
	var c oracle.CharSpec
	pn := 20
	if o.Small {
		pn = 65
	}
	c.Allow = Flags(t, "allow", pn)
	c.Require = Flags(t, "require", 55)
	c.Exclude = Flags(t, "exclude", 45)
	// only the five documented class bits: what an undefined bit means is not
	// specified (an implementation may ignore or refuse it)
	c.Allow &= 31
	c.Require &= 31
	c.Exclude &= 31
	minAllow := 0
	if c.Allow&31 == 0 {
		minAllow = 1
	}
	c.AllowChars = poolString(t, "allowchar", pool, minAllow, 8)
	nreq := 0
	if o.MaxReq > 0 {
		w := rapid.IntRange(0, 9).Draw(t, "nreq_w")
		switch {
		case w < 3:
			nreq = 0
		case w < 9:
			nreq = rapid.IntRange(1, min(3, o.MaxReq)).Draw(t, "nreq")
		default:
			nreq = rapid.IntRange(1, o.MaxReq).Draw(t, "nreq_big")
		}
	}
	for i := 0; i < nreq; i++ {
		c.RequireSets = append(c.RequireSets, poolString(t, "reqchar", pool, 0, 5))
	}
	if len(c.RequireSets) > 0 && len(c.RequireSets) < o.MaxReq && rapid.IntRange(0, 7).Draw(t, "dup_set") == 0 {
		// the same set given twice (in another order)
		cs := oracle.Chars(c.RequireSets[0])
		rev := ""
		for i := len(cs) - 1; i >= 0; i-- {
			rev += cs[i]
		}
		c.RequireSets = append(c.RequireSets, rev)
	}
	if c.Require&31 != 0 && len(c.RequireSets) < o.MaxReq && rapid.IntRange(0, 15).Draw(t, "class_as_set") == 0 {
		// a class required by flag and again as a custom set of all its members
		for _, f := range oracle.ClassOrder {
			if c.Require&f != 0 {
				c.RequireSets = append(c.RequireSets, oracle.ClassChars[f])
				break
			}
		}
	}
	if len(c.RequireSets) > 0 && len(c.RequireSets) < o.MaxReq && rapid.IntRange(0, 15).Draw(t, "covering_first") == 0 {
		// a required set that spans the whole alphabet, listed before the others
		all := strings.Join(c.Alphabet(), "")
		c.RequireSets = append([]string{all}, c.RequireSets...)
	}
	c.ExcludeChars = poolString(t, "exclchar", pool, 0, 4)
	minL := 1
	if o.MinLen != 0 {
		minL = o.MinLen
	}
	maxL := o.MaxLen
	if maxL < minL {
		maxL = minL
	}
	if o.LeafCap > 0 {
		u := len(c.AlphabetSet())
		if u >= 2 {
			m := int(math.Floor(math.Log(float64(o.LeafCap)) / math.Log(float64(u))))
			if m < 1 {
				m = 1
			}
			if m < maxL {
				maxL = m
			}
		}
	}
	if maxL < minL {
		maxL = minL
	}
	c.Length = rapid.IntRange(minL, maxL).Draw(t, "length")
	if o.LongTail > 0 && rapid.IntRange(0, 9).Draw(t, "longtail") == 0 {
		c.Length = rapid.IntRange(maxL, o.LongTail).Draw(t, "longlength")
	}
	return c
}

func min(a, b int) int {
	if a < b {
		return a
	}
	return b
}

// ---------------------------------------------------------------------------
// Words

// WordPool has deliberate structure: lower-case words, title-cased twins,
// pre-capitalised words without twin, caseless words, multi-word and
// punctuated entries, non-ASCII.
var WordPool = []string{
	"alpha", "beta", "gamma", "delta", "polish", "Polish", "Alpha", "paris", "Paris",
	"Zulu", "Xray", "NASA", "4", "42", "正確", "馬", "ß", "ice cream", "Ice Cream", "don't", "x_y",
	"été", "Été", "ñu", "a", "A", "b", "zz", "ǆemal", "ﬁn", "o'neil", "été été", "-", "q", "r", "s", "tt", "uu",
	// title forms that sort AFTER the word in byte order, and short words whose concatenations collide
	"ÿves", "Ÿves", "µm", "Μm", "ab", "ba", "ÉTÉ", "ÑU", "Ice cream", "O'neil", "O'Neil", "100%", "%d",
}

// LowerPool: words that all change under title-casing and have pairwise
// distinct title forms (the C04/C06 premise holds for any subset).
var LowerPool = []string{"alpha", "beta", "gamma", "delta", "polish", "paris", "été", "ñu", "a", "b", "zz", "q", "r", "s", "tt", "uu", "ice cream", "don't", "x_y", "ǆemal", "ÿves", "µm", "ab"}

// WordListOpts shapes list generation.
type WordListOpts struct {
	Min, Max   int
	Premise    bool // only lists satisfying the title-casing premise
	AllCapable bool // draw from LowerPool only
	Pool       []string
}

// WordList draws an input list (with duplicates and arbitrary order).
func WordList(t *rapid.T, o WordListOpts) []string {
	pool := o.Pool
	if pool == nil {
		pool = WordPool
		if o.AllCapable {
			pool = LowerPool
		}
	}
	n := rapid.IntRange(o.Min, o.Max).Draw(t, "nwords")
	out := make([]string, 0, n)
	for i := 0; i < n; i++ {
		out = append(out, rapid.SampledFrom(pool).Draw(t, "word"))
	}
	if o.Premise {
		// construction, not rejection: drop words that break the premise
		var kept []string
		for _, w := range out {
			cand := append(append([]string{}, kept...), w)
			if oracle.PremiseOK(oracle.Kept(cand)) {
				kept = cand
			}
		}
		if len(kept) == 0 {
			kept = []string{pool[0]}
		}
		out = kept
	}
	return out
}

// Schemes are the documented capitalisation schemes.
var Schemes = []string{"none", "first", "all", "random", "one"}

// Scheme draws a scheme; unknown strings when allowUnknown.
func Scheme(t *rapid.T, allowUnknown bool) string {
	// What a scheme string outside the five documented names means is not
	// specified (the pinned code treats it as "none"; an implementation may
	// fold case or refuse it): such strings are no longer generated.
	_ = allowUnknown
	return rapid.SampledFrom(Schemes).Draw(t, "scheme")
}

// SepSpec describes a separator setting in serialisable form.
type SepSpec struct {
	Kind      string           `json:"kind"`               // const | preset | func | script | nil
	Const     string           `json:"const,omitempty"`    // SeparatorChar
	Preset    string           `json:"preset,omitempty"`   // name of exported preset
	Recipe    *oracle.CharSpec `json:"recipe,omitempty"`   // NewSFFunction(recipe)
	Script    []string         `json:"script,omitempty"`   // scripted closure return values (cyclic)
	Decoy     string           `json:"decoy,omitempty"`    // SeparatorChar set although a SeparatorFunc is given (the function must be used)
	VaryEnt   bool             `json:"vary_ent,omitempty"` // kind "draw": the reported entropy alternates between calls
	Draw      []string         `json:"draw,omitempty"`     // kind "draw": closure picks one of these uniformly with the library's bounded draw
	DrawEnt   float32          `json:"draw_ent,omitempty"` // entropy that closure reports (0 = under-claims, allowed)
	ScriptEnt float32          `json:"script_ent,omitempty"`
}

// Presets are the exported separator functions by name.
var Presets = []string{"SFNone", "SFDigits1", "SFDigits2", "SFDigitsNoAmbiguous1", "SFDigitsNoAmbiguous2", "SFSymbols", "SFDigitsSymbols"}

// ConstSeps are constant separators incl. empty and multi-byte.
var ConstSeps = []string{"", "-", " ", "¡", "—·", "::", "%", "%s"}

// Sep draws a separator setting. small: only separators with tiny value sets
// (for enumeration).
func Sep(t *rapid.T, small bool, allowScript bool) SepSpec {
	k := rapid.IntRange(0, 9).Draw(t, "sep_kind")
	switch {
	case k < 3:
		return SepSpec{Kind: "const", Const: rapid.SampledFrom(ConstSeps).Draw(t, "sep_const")}
	case k < 6:
		ps := Presets
		if small {
			ps = []string{"SFNone", "SFDigits1", "SFSymbols", "SFDigitsNoAmbiguous1"}
		}
		return SepSpec{Kind: "preset", Preset: rapid.SampledFrom(ps).Draw(t, "sep_preset"), Decoy: rapid.SampledFrom([]string{"", "", "#", "##"}).Draw(t, "sep_decoy")}
	case k < 9 || !allowScript:
		r := CharSpec(t, CharOpts{MaxLen: 2, MaxReq: 1, LeafCap: 16, Small: true, NoHiBits: true})
		return SepSpec{Kind: "func", Recipe: &r}
	default:
		n := rapid.IntRange(1, 6).Draw(t, "script_n")
		var sc []string
		for i := 0; i < n; i++ {
			sc = append(sc, rapid.SampledFrom([]string{"", "-", "+", "—", "12", "·x"}).Draw(t, "script_v"))
		}
		return SepSpec{Kind: "script", Script: sc, ScriptEnt: float32(rapid.IntRange(0, 3).Draw(t, "script_e"))}
	}
}

// WLSpec is a serialisable wordlist recipe.
type WLSpec struct {
	Words  []string `json:"words"`
	Length int      `json:"length"`
	Scheme string   `json:"scheme"`
	Sep    SepSpec  `json:"sep"`
}

// Uint32s draws a short slice of raw words biased to boundary values.
func Uint32s(t *rapid.T, label string, max int) []uint32 {
	n := rapid.IntRange(0, max).Draw(t, label+"_n")
	out := make([]uint32, n)
	for i := range out {
		switch rapid.IntRange(0, 5).Draw(t, label+"_k") {
		case 0:
			out[i] = 0
		case 1:
			out[i] = math.MaxUint32
		case 2:
			out[i] = uint32(rapid.IntRange(0, 300).Draw(t, label+"_small"))
		default:
			out[i] = rapid.Uint32().Draw(t, label)
		}
	}
	return out
}

// WLOpts shapes wordlist-recipe generation.
type WLOpts struct {
	List        WordListOpts
	MaxLen      int
	SmallSep    bool
	AllowScript bool
	UnknownCap  bool
}

// WL draws a wordlist recipe.
func WL(t *rapid.T, o WLOpts) WLSpec {
	return WLSpec{
		Words:  WordList(t, o.List),
		Length: rapid.IntRange(1, o.MaxLen).Draw(t, "wl_length"),
		Scheme: Scheme(t, o.UnknownCap),
		Sep:    Sep(t, o.SmallSep, o.AllowScript),
	}
}

// Perm draws a reordering-with-repetition of n items that covers every item:
// a permutation followed by extra repeats, then shuffled by a second
// permutation.
func Perm(t *rapid.T, n int, label string) []int {
	idx := make([]int, n)
	for i := range idx {
		idx[i] = i
	}
	extra := rapid.IntRange(0, 3).Draw(t, label+"_extra")
	for i := 0; i < extra; i++ {
		idx = append(idx, rapid.IntRange(0, n-1).Draw(t, label+"_dup"))
	}
	return rapid.Permutation(idx).Draw(t, label)
}

// Siblings returns recipes that are different from c but easy to confuse with
// it when fields are flattened into a key or a string: required sets merged
// with / split at a delimiter, a boundary between two sets moved, characters
// moved across the AllowChars / RequireSets / ExcludeChars boundaries around a
// delimiter. They are ordinary recipes; evaluating them right after c in the
// same process exposes state that is shared between recipes under a key that
// does not determine the recipe.
func Siblings(c oracle.CharSpec) []oracle.CharSpec {
	var out []oracle.CharSpec
	cp := func() oracle.CharSpec {
		d := c
		d.RequireSets = append([]string(nil), c.RequireSets...)
		return d
	}
	rs := c.RequireSets
	if len(rs) >= 2 {
		for _, d := range []string{"", " ", ","} {
			m := cp()
			m.RequireSets = append([]string{rs[0] + d + rs[1]}, rs[2:]...)
			out = append(out, m)
		}
		if len(rs[1]) > 0 {
			// move the boundary between the first two sets
			m := cp()
			ch := oracle.Chars(rs[1])
			m.RequireSets[0] = rs[0] + ch[0]
			m.RequireSets[1] = strings.Join(ch[1:], "")
			out = append(out, m)
		}
	}
	if len(rs) >= 1 {
		ch := oracle.Chars(rs[0])
		if len(ch) >= 2 {
			m := cp()
			m.RequireSets = append([]string{ch[0], strings.Join(ch[1:], "")}, rs[1:]...)
			out = append(out, m)
		}
		// "%s/%s/%s"-style keys: a required set swallowed by the neighbouring fields
		for _, d := range []string{"/", ",", " "} {
			m := cp()
			m.AllowChars = c.AllowChars
			m.RequireSets = rs[1:]
			m.ExcludeChars = rs[0] + d + c.ExcludeChars
			out = append(out, m)
		}
	}
	return out
}

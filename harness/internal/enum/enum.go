// Package enum drives the code under test through chosen *indices* rather
// than raw random words, and enumerates complete trees of such choices.
//
// It relies on two verif-tagged hooks of spg: VerifDrawObserver (the bound of
// every bounded draw is announced before bytes are read for it) and
// VerifRandomUint32n (used to learn, by probing the real sampler, a raw word
// that it accepts and maps to a wanted index). Nothing here assumes how the
// sampler maps words to indices.
package enum

import (
	"crypto/rand"
	"fmt"
	"math/big"
	"math/bits"

	"go.1password.io/spg"

	"verif/harness/internal/tape"
)

// Draw is one announced bounded draw.
type Draw struct {
	Bound  uint32
	Choice uint32 // forced index (Force mode) - undefined in observe mode
	Pos    int    // tape position when announced
	Bytes  int    // bytes consumed until the next announcement / end of call
}

// Inconclusive is returned (as error) when the engine cannot interpret a run
// at index level. It is never a property violation.
type Inconclusive struct{ Why string }

func (e *Inconclusive) Error() string      { return "inconclusive: " + e.Why }
func (e *Inconclusive) Inconclusive() bool { return true }

// Session runs one call of the code under test.
type Session struct {
	Tape     *tape.Tape
	Force    bool                         // push a representative word for every draw
	Choices  []uint32                     // prescribed indices for draws 0..len-1 (reduced mod bound)
	Cont     func(k int, n uint32) uint32 // index for draws beyond Choices; nil = 0
	Reps     *Reps                        // representative store (Force mode)
	Draws    []Draw
	Pre      int // bytes read before the first announcement
	Panic    interface{}
	CapHit   bool
	NoRep    *NoRepresentative // the engine could not learn a word for a wanted index (never a verdict on the code)
	MaxDraws int               // abort (CapHit) after this many draws; 0 = 1<<20
}

func (s *Session) announce(n uint32) {
	k := len(s.Draws)
	if k > 0 {
		s.Draws[k-1].Bytes = s.Tape.Pos - s.Draws[k-1].Pos
	} else {
		s.Pre = s.Tape.Pos
	}
	md := s.MaxDraws
	if md == 0 {
		md = 1 << 20
	}
	if k >= md {
		panic(tape.CapExceeded{Pos: s.Tape.Pos})
	}
	d := Draw{Bound: n, Pos: s.Tape.Pos}
	if s.Force && n > 0 {
		var c uint32
		if k < len(s.Choices) {
			c = s.Choices[k]
		} else if s.Cont != nil {
			c = s.Cont(k, n)
		}
		c %= n
		d.Choice = c
		if !(n == 1 && s.Reps.ZeroRead1()) {
			s.Tape.PushWord(s.Reps.Get(n, c))
		}
	}
	s.Draws = append(s.Draws, d)
}

// Run installs the tape and the observer, calls f, and restores both. A panic
// in f is captured in s.Panic (CapHit for the tape's own cap panic).
func (s *Session) Run(f func()) {
	if s.Tape == nil {
		s.Tape = &tape.Tape{}
	}
	if s.Force && s.Reps == nil {
		s.Reps = SharedReps
	}
	oldR := rand.Reader
	oldO := spg.VerifDrawObserver
	rand.Reader = s.Tape
	spg.VerifDrawObserver = s.announce
	defer func() {
		rand.Reader = oldR
		spg.VerifDrawObserver = oldO
		if k := len(s.Draws); k > 0 {
			s.Draws[k-1].Bytes = s.Tape.Pos - s.Draws[k-1].Pos
		} else {
			s.Pre = s.Tape.Pos
		}
		if r := recover(); r != nil {
			if _, ok := r.(tape.CapExceeded); ok {
				s.CapHit = true
			} else if nr, ok := r.(NoRepresentative); ok {
				s.NoRep = &nr
			} else {
				s.Panic = r
			}
		}
	}()
	f()
}

// IndexLevelOK says whether the run can be read as a sequence of index
// choices: no bytes before the first announcement, every draw exactly one
// accepted 4-byte word.
func (s *Session) IndexLevelOK() error {
	if s.CapHit {
		return &Inconclusive{"read cap exceeded"}
	}
	if s.NoRep != nil {
		return &Inconclusive{fmt.Sprintf("no source word found that the sampler maps to index %d of %d", s.NoRep.J, s.NoRep.N)}
	}
	if s.Pre != 0 {
		return &Inconclusive{fmt.Sprintf("%d random bytes read outside a bounded draw", s.Pre)}
	}
	for i, d := range s.Draws {
		if d.Bound == 0 {
			continue
		}
		if d.Bound == 1 && d.Bytes == 0 {
			continue // a one-alternative draw needs no randomness
		}
		if d.Bytes != 4 {
			return &Inconclusive{fmt.Sprintf("draw %d (bound %d) consumed %d bytes, want 4", i, d.Bound, d.Bytes)}
		}
	}
	return nil
}

// ---------------------------------------------------------------------------
// Learned representatives

// Reps caches, per (bound, index), a raw word that the real sampler accepts
// on first read and maps to that index.
type Reps struct {
	m      map[uint64]uint32
	Alt    uint32 // rotates which representative is preferred
	Probes int
	zero1  int // 0 unknown, 1 the sampler reads nothing for bound 1, 2 it reads a word
}

// ZeroRead1 reports whether the sampler under test answers a draw with a single
// alternative without reading from the source (learned by one probe).
func (r *Reps) ZeroRead1() bool {
	if r.zero1 == 0 {
		res, c, ok := Probe(1, 0, 4*64)
		if ok && c == 0 && res == 0 {
			r.zero1 = 1
		} else {
			r.zero1 = 2
		}
	}
	return r.zero1 == 1
}

// SharedReps is the process-wide store.
var SharedReps = &Reps{m: map[uint64]uint32{}}

// NoRepresentative is the panic value when no word could be learned.
type NoRepresentative struct{ N, J uint32 }

func mix(a, b uint64) uint64 {
	x := a*0x9E3779B97F4A7C15 ^ b
	x ^= x >> 32
	x *= 0xD6E8FEB86659FD93
	x ^= x >> 32
	x *= 0xD6E8FEB86659FD93
	x ^= x >> 32
	return x
}

// Probe calls the real bounded draw once with first word w followed by a
// pseudo-random continuation; it reports the result and bytes consumed.
func Probe(n, w uint32, capBytes int) (res uint32, consumed int, ok bool) {
	t := &tape.Tape{TailKey: mix(uint64(n), uint64(w)) | 1, Cap: capBytes}
	t.PushWord(w)
	oldR := rand.Reader
	oldO := spg.VerifDrawObserver
	rand.Reader = t
	spg.VerifDrawObserver = nil
	defer func() {
		rand.Reader = oldR
		spg.VerifDrawObserver = oldO
		consumed = t.Pos
		if r := recover(); r != nil {
			ok = false
		}
	}()
	res = spg.VerifRandomUint32n(n)
	return res, t.Pos, true
}

// Get returns a representative for index j of bound n.
func (r *Reps) Get(n, j uint32) uint32 {
	if r.m == nil {
		r.m = map[uint64]uint32{}
	}
	key := uint64(n)<<32 | uint64(j)
	if w, ok := r.m[key]; ok {
		return w
	}
	try := func(w uint32) bool {
		r.Probes++
		res, c, ok := Probe(n, w, 4*64)
		if ok && c == 4 && res == j {
			r.m[key] = w
			return true
		}
		return false
	}
	var cands []uint32
	if r.Alt > 0 && n > 0 {
		q := uint32((uint64(1) << 32) / uint64(n))
		if q > 1 {
			k := r.Alt % q
			cands = append(cands, j+n*k)
		}
	}
	scaled := uint32((uint64(j)<<32 + uint64(n) - 1) / uint64(n))
	step := uint32((uint64(1) << 32) / uint64(n) / 2)
	cands = append(cands, j, bits.ReverseBytes32(j), scaled+step, bits.ReverseBytes32(scaled+step), scaled, scaled+1)
	for _, w := range cands {
		if try(w) {
			return r.m[key]
		}
	}
	x := mix(uint64(n), uint64(j))
	for i := 0; i < 1<<22; i++ {
		x = mix(x, uint64(i))
		if try(uint32(x)) {
			return r.m[key]
		}
	}
	panic(NoRepresentative{n, j})
}

// ---------------------------------------------------------------------------
// Enumeration

// Opts controls a tree enumeration.
type Opts struct {
	Prefix    []uint32                     // fixed indices served before the enumerated region
	Depth     int                          // number of draws enumerated after Prefix; 0 = to the end of the call
	Cont      func(k int, n uint32) uint32 // indices beyond the region (Depth > 0)
	MaxLeaves int
	TailKey   uint64
}

// Leaf is what the visitor sees: the session after the run (draws with
// bounds and choices) and the exact weight of the enumerated part.
type Leaf struct {
	S      *Session
	Region []Draw   // the enumerated draws (bounds, choices)
	Weight *big.Rat // ∏ 1/bound over Region
}

// ErrTooBig is returned when the tree has more than MaxLeaves leaves.
var ErrTooBig = fmt.Errorf("tree exceeds leaf budget")

// Enumerate runs f once per leaf of the tree of index choices it makes.
// f must perform exactly one call of the code under test inside s.Run.
// visit is called after each run.
func Enumerate(o Opts, f func(s *Session), visit func(l *Leaf) error) (leaves int, err error) {
	region := []uint32{}
	one := big.NewInt(1)
	for {
		s := &Session{Tape: &tape.Tape{TailKey: o.TailKey | 1}, Force: true}
		s.Choices = append(append([]uint32{}, o.Prefix...), region...)
		if o.Depth > 0 && o.Cont != nil {
			end := len(o.Prefix) + o.Depth
			s.Cont = func(k int, n uint32) uint32 {
				if k < end {
					return 0 // inside the enumerated region: first child
				}
				return o.Cont(k, n)
			}
		}
		f(s)
		if e := s.IndexLevelOK(); e != nil {
			return leaves, e
		}
		lo := len(o.Prefix)
		hi := len(s.Draws)
		if o.Depth > 0 && lo+o.Depth < hi {
			hi = lo + o.Depth
		}
		if lo > hi {
			lo = hi
		}
		reg := s.Draws[lo:hi]
		den := big.NewInt(1)
		for _, d := range reg {
			if d.Bound > 0 {
				den.Mul(den, big.NewInt(int64(d.Bound)))
			}
		}
		leaves++
		if e := visit(&Leaf{S: s, Region: reg, Weight: new(big.Rat).SetFrac(one, den)}); e != nil {
			return leaves, e
		}
		if o.MaxLeaves > 0 && leaves > o.MaxLeaves {
			return leaves, ErrTooBig
		}
		// advance: last region draw with room
		k := len(reg) - 1
		for k >= 0 && (reg[k].Bound == 0 || reg[k].Choice+1 >= reg[k].Bound) {
			k--
		}
		if k < 0 {
			return leaves, nil
		}
		region = region[:0]
		for i := 0; i < k; i++ {
			region = append(region, reg[i].Choice)
		}
		region = append(region, reg[k].Choice+1)
	}
}

package oracle

import (
	"math"
	"sort"
	"strings"
)

// Title is the definition of "title-cased form": the standard library's.
func Title(w string) string { return strings.Title(w) }

// Kept is the normalised word set: distinct words minus every x that is the
// title-cased form of another listed word. Sorted for determinism.
func Kept(list []string) []string {
	set := map[string]bool{}
	for _, w := range list {
		set[w] = true
	}
	drop := map[string]bool{}
	for w := range set {
		t := Title(w)
		if t != w && set[t] {
			drop[t] = true
		}
	}
	out := []string{}
	for w := range set {
		if !drop[w] {
			out = append(out, w)
		}
	}
	sort.Strings(out)
	return out
}

// AllCapitalisable: every kept word changes under title-casing.
func AllCapitalisable(kept []string) bool {
	for _, w := range kept {
		if Title(w) == w {
			return false
		}
	}
	return true
}

// PremiseOK is the C04/C06 premise: no two kept entries share a title-cased
// form unless one of them is that form (which normalisation removes), i.e.
// the map kept-word -> Title(word) is injective, and no kept word equals the
// title form of a different kept word.
func PremiseOK(kept []string) bool {
	seen := map[string]string{}
	ks := map[string]bool{}
	for _, w := range kept {
		ks[w] = true
	}
	for _, w := range kept {
		t := Title(w)
		if o, ok := seen[t]; ok && o != w {
			return false
		}
		seen[t] = w
		if t != w && ks[t] {
			return false
		}
	}
	return true
}

// WLEntropy is the documented wordlist entropy.
func WLEntropy(length int, kept []string, scheme string, sepEntropy float64) float64 {
	e := float64(length) * math.Log2(float64(len(kept)))
	if AllCapitalisable(kept) {
		switch scheme {
		case "random":
			e += float64(length)
		case "one":
			e += math.Log2(float64(length))
		}
	}
	e += float64(length-1) * sepEntropy
	return e
}

package oracle

import "fmt"

// Tok is a (value, type) pair; type 1 = atom, 0 = separator (token.go).
type Tok struct {
	V string
	T uint8
}

const (
	SepT  uint8 = 0
	AtomT uint8 = 1
)

// Index kinds as documented in token.go.
const (
	KindChar = 0
	KindVar  = 1
	KindAlt  = 2
	KindFull = 3
)

func allAtoms(ts []Tok) bool {
	if len(ts) == 0 {
		return false
	}
	for _, t := range ts {
		if t.T != AtomT {
			return false
		}
	}
	return true
}

// StrictlyAlternating: A S A ... A with at least one separator.
func StrictlyAlternating(ts []Tok) bool {
	if len(ts)%2 != 1 || len(ts) < 3 {
		return false
	}
	for i, t := range ts {
		want := AtomT
		if i%2 == 1 {
			want = SepT
		}
		if t.T != want {
			return false
		}
	}
	return true
}

// HasAdjacentSameType: two neighbouring tokens of one type.
func HasAdjacentSameType(ts []Tok) bool {
	for i := 1; i < len(ts); i++ {
		if ts[i].T == ts[i-1].T {
			return true
		}
	}
	return false
}

// SizeLaw returns the index sizes the documentation allows for ts
// (property C11): {1} character password; {N+1} all atoms or strictly
// alternating; {2N+1} when two adjacent tokens share a type and not all are
// atoms; otherwise (shapes the sentence does not pin down) either.
func SizeLaw(ts []Tok) []int {
	n := len(ts)
	if allAtoms(ts) {
		one := true
		for _, t := range ts {
			if NChars(t.V) != 1 {
				one = false
			}
		}
		if one {
			return []int{1}
		}
		return []int{n + 1}
	}
	if StrictlyAlternating(ts) {
		return []int{n + 1}
	}
	if HasAdjacentSameType(ts) {
		return []int{2*n + 1}
	}
	return []int{n + 1, 2*n + 1}
}

// Decode is the reference decoder for the documented index format. Lengths
// count characters. It returns an error exactly when the index is empty, the
// kind is unknown, a full index has a dangling half pair, or a length runs
// past the string.
func Decode(pw string, idx []byte) ([]Tok, error) {
	cs := Chars(pw)
	if len(idx) == 0 {
		return nil, fmt.Errorf("empty index")
	}
	join := func(a, b int) string {
		s := ""
		for _, c := range cs[a:b] {
			s += c
		}
		return s
	}
	switch idx[0] {
	case KindChar:
		out := []Tok{}
		for _, c := range cs {
			out = append(out, Tok{c, AtomT})
		}
		return out, nil
	case KindVar, KindAlt:
		out := []Tok{}
		pos := 0
		for i, l := range idx[1:] {
			np := pos + int(l)
			if np > len(cs) {
				return nil, fmt.Errorf("too short")
			}
			t := AtomT
			if idx[0] == KindAlt && i%2 == 1 {
				t = SepT
			}
			out = append(out, Tok{join(pos, np), t})
			pos = np
		}
		return out, nil
	case KindFull:
		if (len(idx)-1)%2 != 0 {
			return nil, fmt.Errorf("dangling half pair")
		}
		out := []Tok{}
		pos := 0
		for i := 1; i < len(idx); i += 2 {
			np := pos + int(idx[i])
			if np > len(cs) {
				return nil, fmt.Errorf("too short")
			}
			out = append(out, Tok{join(pos, np), idx[i+1]})
			pos = np
		}
		return out, nil
	}
	return nil, fmt.Errorf("unknown kind")
}

// Package oracle is the reference model the checks compare spg against. It is
// written from the property statements and the package documentation and
// imports nothing from spg.
package oracle

import (
	"math"
	"math/big"
	"sort"
	"strings"
	"unicode/utf8"
)

// Class flags, typed in from the documentation (char_gen.go doc comments and
// property C16), not read from spg.
const (
	Uppers uint32 = 1 << iota
	Lowers
	Digits
	Symbols
	Ambiguous
	None    uint32 = 0
	Letters        = Uppers | Lowers
	All            = Letters | Digits | Symbols
)

// ClassOrder lists the single-class flags.
var ClassOrder = []uint32{Uppers, Lowers, Digits, Symbols, Ambiguous}

// ClassChars is the documented content of each class.
var ClassChars = map[uint32]string{
	Uppers:    "ABCDEFGHIJKLMNOPQRSTUVWXYZ",
	Lowers:    "abcdefghijklmnopqrstuvwxyz",
	Digits:    "0123456789",
	Symbols:   "!@.-_*",
	Ambiguous: "0O1Il5S",
}

// Chars splits s into characters: one UTF-8 sequence each; an invalid byte is
// a character of its own.
func Chars(s string) []string {
	out := make([]string, 0, len(s))
	for len(s) > 0 {
		_, n := utf8.DecodeRuneInString(s)
		out = append(out, s[:n])
		s = s[n:]
	}
	return out
}

// NChars counts characters of s.
func NChars(s string) int {
	n := 0
	for len(s) > 0 {
		_, k := utf8.DecodeRuneInString(s)
		s = s[k:]
		n++
	}
	return n
}

// CharSpec mirrors the public fields of a character recipe.
type CharSpec struct {
	Length       int
	Allow        uint32
	Require      uint32
	Exclude      uint32
	AllowChars   string
	RequireSets  []string
	ExcludeChars string
}

func classes(f uint32) string {
	var b strings.Builder
	for _, c := range ClassOrder {
		if f&c != 0 {
			b.WriteString(ClassChars[c])
		}
	}
	return b.String()
}

func setOf(s string) map[string]bool {
	m := map[string]bool{}
	for _, c := range Chars(s) {
		m[c] = true
	}
	return m
}

// RequireSetsOrEmpty returns the first custom required set, or "".
func (c CharSpec) RequireSetsOrEmpty() string {
	if len(c.RequireSets) == 0 {
		return ""
	}
	return c.RequireSets[0]
}

// Excluded is the set of characters that must never appear.
func (c CharSpec) Excluded() map[string]bool {
	return setOf(c.ExcludeChars + classes(c.Exclude))
}

// RequiredRaw lists the required sets before exclusion: each non-empty custom
// set, then each class flagged in Require.
func (c CharSpec) RequiredRaw() []map[string]bool {
	var out []map[string]bool
	for _, s := range c.RequireSets {
		if len(s) > 0 {
			out = append(out, setOf(s))
		}
	}
	for _, f := range ClassOrder {
		if c.Require&f != 0 {
			out = append(out, setOf(ClassChars[f]))
		}
	}
	return out
}

// Required lists the required sets in force: after exclusion, empty ones
// dropped (they impose nothing).
func (c CharSpec) Required() []map[string]bool {
	ex := c.Excluded()
	var out []map[string]bool
	for _, s := range c.RequiredRaw() {
		t := map[string]bool{}
		for ch := range s {
			if !ex[ch] {
				t[ch] = true
			}
		}
		if len(t) > 0 {
			out = append(out, t)
		}
	}
	return out
}

// EmptiedRequired counts required sets that exclusion emptied.
func (c CharSpec) EmptiedRequired() int {
	return len(c.RequiredRaw()) - len(c.Required())
}

// AlphabetSet is every character that may appear.
func (c CharSpec) AlphabetSet() map[string]bool {
	ex := c.Excluded()
	m := map[string]bool{}
	add := func(s map[string]bool) {
		for ch := range s {
			if !ex[ch] {
				m[ch] = true
			}
		}
	}
	add(setOf(c.AllowChars + classes(c.Allow)))
	for _, s := range c.RequiredRaw() {
		add(s)
	}
	return m
}

// Alphabet is AlphabetSet sorted in byte order.
func (c CharSpec) Alphabet() []string {
	m := c.AlphabetSet()
	out := make([]string, 0, len(m))
	for ch := range m {
		out = append(out, ch)
	}
	sort.Strings(out)
	return out
}

// Valid says whether s is a password the recipe allows.
func (c CharSpec) Valid(s string) (bool, string) {
	cs := Chars(s)
	if len(cs) != c.Length {
		return false, "length"
	}
	ab := c.AlphabetSet()
	for _, ch := range cs {
		if !ab[ch] {
			return false, "character " + ch + " not in alphabet"
		}
	}
	for i, r := range c.Required() {
		hit := false
		for _, ch := range cs {
			if r[ch] {
				hit = true
				break
			}
		}
		if !hit {
			return false, "required set " + string(rune('0'+i)) + " missed"
		}
	}
	return true, ""
}

// masks returns, for the sorted alphabet, which required sets contain each
// character, and the number of required sets.
func (c CharSpec) masks() ([]string, []uint32, int) {
	ab := c.Alphabet()
	req := c.Required()
	ms := make([]uint32, len(ab))
	for i, ch := range ab {
		for j, r := range req {
			if r[ch] {
				ms[i] |= 1 << uint(j)
			}
		}
	}
	return ab, ms, len(req)
}

// CountIE is the exact number of valid strings by inclusion-exclusion:
// Σ_{T⊆R} (−1)^|T| · |U∖⋃T|^Length.
func (c CharSpec) CountIE() *big.Int {
	_, ms, k := c.masks()
	total := new(big.Int)
	if c.Length < 0 {
		return total
	}
	L := big.NewInt(int64(c.Length))
	for T := uint32(0); T < 1<<uint(k); T++ {
		n := 0
		for _, m := range ms {
			if m&T == 0 {
				n++
			}
		}
		term := new(big.Int).Exp(big.NewInt(int64(n)), L, nil)
		if popcount(T)%2 == 1 {
			total.Sub(total, term)
		} else {
			total.Add(total, term)
		}
	}
	return total
}

func popcount(x uint32) int {
	n := 0
	for ; x != 0; x &= x - 1 {
		n++
	}
	return n
}

// CountDP is the same number by dynamic programming over "which required
// sets have been hit so far" - independent of CountIE.
func (c CharSpec) CountDP() *big.Int {
	_, ms, k := c.masks()
	if c.Length < 0 {
		return new(big.Int)
	}
	// multiplicity of each distinct mask among alphabet characters
	mult := map[uint32]int64{}
	for _, m := range ms {
		mult[m]++
	}
	full := uint32(1)<<uint(k) - 1
	cur := map[uint32]*big.Int{0: big.NewInt(1)}
	for i := 0; i < c.Length; i++ {
		nxt := map[uint32]*big.Int{}
		for st, cnt := range cur {
			for m, mu := range mult {
				t := st | m
				v, ok := nxt[t]
				if !ok {
					v = new(big.Int)
					nxt[t] = v
				}
				v.Add(v, new(big.Int).Mul(cnt, big.NewInt(mu)))
			}
		}
		cur = nxt
	}
	if v, ok := cur[full]; ok {
		return v
	}
	return new(big.Int)
}

// CountBrute enumerates all |U|^Length strings; ok=false if that exceeds max.
func (c CharSpec) CountBrute(max int) (*big.Int, bool) {
	ab, ms, k := c.masks()
	n := len(ab)
	if c.Length < 0 {
		return new(big.Int), true
	}
	tot := 1
	for i := 0; i < c.Length; i++ {
		if n == 0 {
			tot = 0
			break
		}
		if tot > max/n {
			return nil, false
		}
		tot *= n
	}
	full := uint32(1)<<uint(k) - 1
	cnt := int64(0)
	idx := make([]int, c.Length)
	for t := 0; t < tot; t++ {
		var u uint32
		for _, j := range idx {
			u |= ms[j]
		}
		if u == full {
			cnt++
		}
		for p := c.Length - 1; p >= 0; p-- {
			idx[p]++
			if idx[p] < n {
				break
			}
			idx[p] = 0
		}
	}
	return big.NewInt(cnt), true
}

// ValidStrings lists every valid string (small recipes only); ok=false above max.
func (c CharSpec) ValidStrings(max int) ([]string, bool) {
	ab, ms, k := c.masks()
	n := len(ab)
	if c.Length < 1 || n == 0 {
		return nil, true
	}
	tot := 1
	for i := 0; i < c.Length; i++ {
		if tot > max/n {
			return nil, false
		}
		tot *= n
	}
	full := uint32(1)<<uint(k) - 1
	var out []string
	idx := make([]int, c.Length)
	for t := 0; t < tot; t++ {
		var u uint32
		for _, j := range idx {
			u |= ms[j]
		}
		if u == full {
			var b strings.Builder
			for _, j := range idx {
				b.WriteString(ab[j])
			}
			out = append(out, b.String())
		}
		for p := c.Length - 1; p >= 0; p-- {
			idx[p]++
			if idx[p] < n {
				break
			}
			idx[p] = 0
		}
	}
	return out, true
}

// Universe is |alphabet|^Length.
func (c CharSpec) Universe() *big.Int {
	if c.Length < 0 {
		return new(big.Int)
	}
	return new(big.Int).Exp(big.NewInt(int64(len(c.AlphabetSet()))), big.NewInt(int64(c.Length)), nil)
}

// PSuccess is the exact single-attempt success probability; ok=false when
// the universe is empty.
func (c CharSpec) PSuccess() (*big.Rat, bool) {
	u := c.Universe()
	if u.Sign() == 0 {
		return nil, false
	}
	return new(big.Rat).SetFrac(c.CountIE(), u), true
}

// Log2Big returns log2 of a non-negative big integer (-Inf for 0).
func Log2Big(x *big.Int) float64 {
	if x.Sign() <= 0 {
		return math.Inf(-1)
	}
	b := x.BitLen()
	if b <= 62 {
		return math.Log2(float64(x.Int64()))
	}
	top := new(big.Int).Rsh(x, uint(b-62))
	return math.Log2(float64(top.Int64())) + float64(b-62)
}

// Log2Rat returns log2 of a positive rational.
func Log2Rat(r *big.Rat) float64 {
	return Log2Big(r.Num()) - Log2Big(r.Denom())
}

// Ulp32 is the spacing of float32 values at magnitude |x|.
func Ulp32(x float64) float64 {
	a := float32(math.Abs(x))
	if math.IsInf(float64(a), 0) || math.IsNaN(float64(a)) {
		return math.Inf(1)
	}
	return float64(math.Nextafter32(a, float32(math.Inf(1)))) - float64(a)
}

// Close32 says whether the float32 value got equals ref up to ulps float32
// spacings at magnitude scale (plus 1e-6 absolute). Infinities must match
// exactly; NaN never matches.
func Close32(got float32, ref float64, ulps float64, scale float64) bool {
	g := float64(got)
	if math.IsNaN(g) || math.IsNaN(ref) {
		return false
	}
	if math.IsInf(g, 0) || math.IsInf(ref, 0) {
		return g == ref || (math.IsInf(ref, 1) && math.IsInf(g, 1)) || (math.IsInf(ref, -1) && math.IsInf(g, -1))
	}
	if math.Abs(ref) > scale {
		scale = math.Abs(ref)
	}
	if math.Abs(g) > scale {
		scale = math.Abs(g)
	}
	return math.Abs(g-ref) <= ulps*Ulp32(scale)+1e-6
}

// Feasibility applies the documented refusal rule to a character recipe:
// refused iff Length < 1, the alphabet is empty, or
// (1-p)^maxTrials > maxFail with p the exact single-attempt success chance.
// borderline is set when the failure chance is within 1% of the limit (the
// library evaluates it in float32/float64; such cases assert nothing).
func (c CharSpec) Feasibility(maxTrials int, maxFail float64) (refused, borderline bool) {
	if c.Length < 1 || len(c.AlphabetSet()) == 0 {
		return true, false
	}
	p, ok := c.PSuccess()
	if !ok {
		return true, false
	}
	if p.Sign() == 0 {
		return true, false
	}
	// The library evaluates p as a float32 derived from a difference of two
	// float32 entropies of magnitude up to H = log2|U|^Length, so p is only
	// known to a relative 2^±tau with tau a few float32 spacings at H. A
	// recipe whose verdict flips inside that band asserts nothing.
	pf, _ := p.Float64()
	h := Log2Big(c.Universe())
	if h < 1 {
		h = 1
	}
	tau := 4*Ulp32(h) + 2e-7
	verdict := func(q float64) bool {
		if q >= 1 {
			return false
		}
		return math.Pow(1-q, float64(maxTrials)) > maxFail
	}
	lo, hi := pf*math.Exp2(-tau), pf*math.Exp2(tau)
	v := verdict(pf)
	if verdict(lo) != v || verdict(hi) != v {
		return v, true
	}
	fail := math.Pow(1-pf, float64(maxTrials))
	if pf >= 1 {
		fail = 0
	}
	if fail > maxFail*0.99 && fail < maxFail*1.01 {
		return v, true
	}
	return v, false
}

// Package ev holds run configuration, evidence recording, replay files and
// the known-findings list for the property checks.
package ev

import (
	"crypto/sha256"
	"encoding/binary"
	"encoding/hex"
	"encoding/json"
	"errors"
	"flag"
	"fmt"
	"os"
	"path/filepath"
	"sort"
	"strconv"
	"strings"
	"sync"
	"testing"
	"time"

	"pgregory.net/rapid"
)

// Config comes from the environment the driver sets.
type Config struct {
	Tier      string // quick | thorough
	Seed      uint64
	Shard     int
	NShards   int
	Out       string // shard report path
	Replay    string // replay file to run instead of generating
	ReplayDir string // where new replay files go
	Known     string // known_findings.json
	RepoDir   string // tree under test
}

var Cfg = loadCfg()

func loadCfg() Config {
	c := Config{Tier: "quick", Seed: 1, NShards: 1}
	if v := os.Getenv("VERIF_TIER"); v == "thorough" {
		c.Tier = v
	}
	if v, err := strconv.ParseUint(os.Getenv("VERIF_SEED"), 10, 64); err == nil {
		c.Seed = v
	}
	if v := os.Getenv("VERIF_SHARD"); v != "" {
		fmt.Sscanf(v, "%d/%d", &c.Shard, &c.NShards)
		if c.NShards < 1 {
			c.NShards = 1
		}
	}
	c.Out = os.Getenv("VERIF_OUT")
	c.Replay = os.Getenv("VERIF_REPLAY")
	c.ReplayDir = os.Getenv("VERIF_REPLAY_DIR")
	c.Known = os.Getenv("VERIF_KNOWN")
	c.RepoDir = os.Getenv("VERIF_REPO_DIR")
	if c.RepoDir == "" {
		c.RepoDir = "/repo"
	}
	return c
}

// Thorough reports the tier.
func Thorough() bool { return Cfg.Tier == "thorough" }

// N picks a case count by tier and divides it among shards (at least 1).
func N(quick, thorough int) int {
	n := quick
	if Thorough() {
		n = thorough
	}
	n = (n + Cfg.NShards - 1) / Cfg.NShards
	if n < 1 {
		n = 1
	}
	return n
}

// Pick picks a value by tier without sharding.
func Pick(quick, thorough int) int {
	if Thorough() {
		return thorough
	}
	return quick
}

// Mix64 is a stable hash used to derive seeds.
func Mix64(a, b uint64) uint64 {
	x := a*0x9E3779B97F4A7C15 ^ (b + 0x632BE59BD9B4E019)
	x ^= x >> 32
	x *= 0xD6E8FEB86659FD93
	x ^= x >> 32
	x *= 0xD6E8FEB86659FD93
	x ^= x >> 32
	return x
}

// HashString is FNV-1a 64.
func HashString(s string) uint64 {
	h := uint64(14695981039346656037)
	for i := 0; i < len(s); i++ {
		h ^= uint64(s[i])
		h *= 1099511628211
	}
	return h
}

// SeedFor derives the rapid seed of one named check in this shard (never 0).
func SeedFor(name string) uint64 {
	s := Mix64(Mix64(Cfg.Seed, uint64(Cfg.Shard)+1), HashString(name))
	if s == 0 {
		s = 1
	}
	return s
}

// ---------------------------------------------------------------------------

// Violation is one failed check.
type Violation struct {
	Check  string `json:"check"`
	Replay string `json:"replay"`
	Msg    string `json:"msg"`
}

// Report is what one shard process writes.
type Report struct {
	Property     string            `json:"property"`
	Shard        int               `json:"shard"`
	Evaluations  int64             `json:"evaluations"`
	Leaves       int64             `json:"leaves"`
	NonTrivial   []uint64          `json:"nontrivial_hashes"`
	Classes      map[string]int64  `json:"classes"`
	Samples      []json.RawMessage `json:"samples"`
	Excluded     map[string]int64  `json:"excluded_known"`
	Violations   []Violation       `json:"violations"`
	Inconclusive []string          `json:"inconclusive"`
	Notes        map[string]string `json:"notes"`
	Exhaustive   map[string]bool   `json:"exhaustive"`
	WallS        float64           `json:"wall_s"`
	Requested    map[string]int    `json:"requested"`
	Passed       map[string]int    `json:"passed"`
}

var (
	mu      sync.Mutex
	rep     = &Report{Classes: map[string]int64{}, Excluded: map[string]int64{}, Notes: map[string]string{}, Exhaustive: map[string]bool{}, Requested: map[string]int{}, Passed: map[string]int{}}
	nontriv = map[uint64]struct{}{}
	samples = map[string]int{}
	start   = time.Now()
)

func SetProperty(id string) { mu.Lock(); rep.Property = id; mu.Unlock() }
func Eval(n int64)          { mu.Lock(); rep.Evaluations += n; mu.Unlock() }
func Leaves(n int64)        { mu.Lock(); rep.Leaves += n; mu.Unlock() }
func Class(name string)     { mu.Lock(); rep.Classes[name]++; mu.Unlock() }
func ClassN(name string, n int64) {
	mu.Lock()
	rep.Classes[name] += n
	mu.Unlock()
}
func Note(k, v string)            { mu.Lock(); rep.Notes[k] = v; mu.Unlock() }
func Exhaustive(k string, b bool) { mu.Lock(); rep.Exhaustive[k] = b; mu.Unlock() }
func Excluded(key string)         { mu.Lock(); rep.Excluded[key]++; mu.Unlock() }
func Inconclusive(msg string) {
	mu.Lock()
	if len(rep.Inconclusive) < 50 {
		rep.Inconclusive = append(rep.Inconclusive, msg)
	}
	mu.Unlock()
}

// NonTrivial records a distinct non-trivial case by its shape key.
func NonTrivial(key string) {
	h := HashString(key)
	mu.Lock()
	nontriv[h] = struct{}{}
	mu.Unlock()
}

// Sample keeps up to max samples per check name.
func Sample(check string, max int, v interface{}) {
	mu.Lock()
	defer mu.Unlock()
	if samples[check] >= max {
		return
	}
	b, err := json.Marshal(map[string]interface{}{"check": check, "case": v})
	if err != nil {
		return
	}
	if len(b) > 4000 {
		return
	}
	samples[check]++
	rep.Samples = append(rep.Samples, b)
}

// AddViolation records a violation and writes its replay file.
func AddViolation(check string, c interface{}, msg string) string {
	path := WriteReplay(check, c, msg)
	mu.Lock()
	defer mu.Unlock()
	for i := range rep.Violations {
		if rep.Violations[i].Check == check {
			rep.Violations[i] = Violation{check, path, msg}
			return path
		}
	}
	rep.Violations = append(rep.Violations, Violation{check, path, msg})
	return path
}

// ReplayFile is the on-disk form of a failing case.
type ReplayFile struct {
	Property string          `json:"property"`
	Check    string          `json:"check"`
	Msg      string          `json:"msg"`
	Case     json.RawMessage `json:"case"`
}

// WriteReplay stores a failing case; one file per (check, shard): shrinking
// overwrites it so the last (minimal) failing case stays.
func WriteReplay(check string, c interface{}, msg string) string {
	dir := Cfg.ReplayDir
	if dir == "" {
		dir = os.TempDir()
	}
	_ = os.MkdirAll(dir, 0o755)
	cb, _ := json.Marshal(c)
	b, _ := json.MarshalIndent(ReplayFile{rep.Property, check, msg, cb}, "", " ")
	path := filepath.Join(dir, fmt.Sprintf("%s-s%d.json", sanitize(check), Cfg.Shard))
	_ = os.WriteFile(path, b, 0o644)
	return path
}

func sanitize(s string) string {
	return strings.Map(func(r rune) rune {
		if r >= 'a' && r <= 'z' || r >= 'A' && r <= 'Z' || r >= '0' && r <= '9' || r == '-' || r == '_' {
			return r
		}
		return '_'
	}, s)
}

// HashBytes gives a short content hash.
func HashBytes(b []byte) string {
	h := sha256.Sum256(b)
	return hex.EncodeToString(h[:6])
}

// Flush writes the shard report.
func Flush() {
	mu.Lock()
	defer mu.Unlock()
	if Cfg.Out == "" {
		return
	}
	rep.Shard = Cfg.Shard
	rep.NonTrivial = rep.NonTrivial[:0]
	for h := range nontriv {
		rep.NonTrivial = append(rep.NonTrivial, h)
	}
	sort.Slice(rep.NonTrivial, func(i, j int) bool { return rep.NonTrivial[i] < rep.NonTrivial[j] })
	rep.WallS = time.Since(start).Seconds()
	b, _ := json.Marshal(rep)
	tmp := Cfg.Out + ".tmp"
	if err := os.WriteFile(tmp, b, 0o644); err == nil {
		_ = os.Rename(tmp, Cfg.Out)
	}
}

// Main is called from TestMain.
func Main(m *testing.M) {
	_ = flag.Set("rapid.nofailfile", "true")
	code := m.Run()
	Flush()
	os.Exit(code)
}

// ---------------------------------------------------------------------------
// Generic rapid-driven check with replay

// Check runs `run` on n generated cases (or on the replay case when
// VERIF_REPLAY names one recorded for this check). run returns a non-nil
// error for a violation; *Skip to discard a case.
func Check[C any](t *testing.T, name string, n int, gen func(*rapid.T) C, run func(c C) error) {
	t.Helper()
	if Cfg.Replay != "" {
		ran, ok := 0, 0
		for _, path := range strings.Split(Cfg.Replay, ":") {
			b, err := os.ReadFile(path)
			if err != nil {
				t.Fatalf("replay: %v", err)
			}
			var rf ReplayFile
			if err := json.Unmarshal(b, &rf); err != nil {
				t.Fatalf("replay %s: %v", path, err)
			}
			if rf.Check != name {
				continue
			}
			var c C
			if err := json.Unmarshal(rf.Case, &c); err != nil {
				t.Fatalf("replay %s: %v", path, err)
			}
			Eval(1)
			ran++
			err = guard(run, c)
			if err != nil && !IsSkip(err) {
				if isInc(err) {
					Inconclusive(name + ": " + err.Error())
					continue
				}
				mu.Lock()
				rep.Violations = append(rep.Violations, Violation{name, path, err.Error()})
				mu.Unlock()
				t.Errorf("replayed violation (%s): %v", path, err)
			} else {
				ok++
			}
		}
		mu.Lock()
		rep.Requested[name] = ran
		rep.Passed[name] = ran
		rep.Classes["replayed_cases"] += int64(ran)
		mu.Unlock()
		_ = ok
		return
	}
	_ = flag.Set("rapid.checks", strconv.Itoa(n))
	_ = flag.Set("rapid.seed", strconv.FormatUint(SeedFor(name), 10))
	mu.Lock()
	rep.Requested[name] = n
	mu.Unlock()
	passed := 0
	ok := t.Run(name, func(t *testing.T) {
		rapid.Check(t, func(rt *rapid.T) {
			c := gen(rt)
			Eval(1)
			err := guard(run, c)
			if err != nil {
				if IsSkip(err) {
					rt.Skip(err.Error())
				}
				if isInc(err) {
					Inconclusive(name + ": " + err.Error())
					return
				}
				AddViolation(name, c, err.Error())
				rt.Fatalf("%v", err)
			}
			passed++
		})
	})
	mu.Lock()
	rep.Passed[name] = passed
	mu.Unlock()
	if !ok {
		// make sure a violation is on record even if the failure came from a
		// panic outside run (generator bug etc.)
		mu.Lock()
		found := false
		for _, v := range rep.Violations {
			if v.Check == name {
				found = true
			}
		}
		mu.Unlock()
		if !found {
			Inconclusive(name + ": rapid reported a failure without a recorded case (harness problem)")
		}
	}
}

// guard runs run(c) and turns a panic carrying an *Inc (raised by harness
// helpers that cannot interpret a run) into that error; other panics pass.
func guard[C any](run func(c C) error, c C) (err error) {
	defer func() {
		if r := recover(); r != nil {
			if inc, ok := r.(*Inc); ok {
				err = inc
				return
			}
			panic(r)
		}
	}()
	return run(c)
}

// Skip marks a discarded case.
type Skip struct{ Why string }

func (s *Skip) Error() string { return "skip: " + s.Why }
func IsSkip(err error) bool {
	var s *Skip
	return errors.As(err, &s)
}

// isInc reports whether err (or an error it wraps) is an inconclusive outcome.
func isInc(err error) bool {
	for e := err; e != nil; e = errors.Unwrap(e) {
		if inc, ok := e.(interface{ Inconclusive() bool }); ok && inc.Inconclusive() {
			return true
		}
	}
	return false
}

// Inc is an inconclusive outcome (never a violation).
type Inc struct{ Why string }

func (e *Inc) Error() string      { return "inconclusive: " + e.Why }
func (e *Inc) Inconclusive() bool { return true }

// Fixed records a plain (non-rapid) sub-check with the same replay protocol.
// cases are produced by `each`, which calls do(c) for every case.
func Fixed[C any](t *testing.T, name string, each func(do func(c C) bool), run func(c C) error) {
	t.Helper()
	if Cfg.Replay != "" {
		Check[C](t, name, 1, nil, run)
		return
	}
	cnt := 0
	each(func(c C) bool {
		cnt++
		Eval(1)
		if err := guard(run, c); err != nil && !IsSkip(err) {
			if isInc(err) {
				Inconclusive(name + ": " + err.Error())
				return true
			}
			AddViolation(name, c, err.Error())
			t.Errorf("%s: %v", name, err)
			return false
		}
		return true
	})
	mu.Lock()
	rep.Requested[name] = cnt
	rep.Passed[name] = cnt
	mu.Unlock()
}

// ---------------------------------------------------------------------------
// Known findings

type Finding struct {
	Status   string `json:"status"` // open | fixed
	Property string `json:"property"`
	Key      string `json:"key"`    // machine key a check uses to recognise this finding
	Commit   string `json:"commit"` // for fixed
	What     string `json:"what"`
}

var (
	knownOnce sync.Once
	known     []Finding
)

func loadKnown() {
	if Cfg.Known == "" {
		return
	}
	b, err := os.ReadFile(Cfg.Known)
	if err != nil {
		return
	}
	var f struct {
		Findings []Finding `json:"findings"`
	}
	if json.Unmarshal(b, &f) == nil {
		known = f.Findings
	}
}

// KnownOpen says whether an *open* finding with this key is listed for the
// property. Fixed entries suppress nothing.
func KnownOpen(property, key string) bool {
	knownOnce.Do(loadKnown)
	for _, f := range known {
		if f.Status == "open" && f.Property == property && f.Key == key {
			return true
		}
	}
	return false
}

// U64 helper for keys.
func U64(b []byte) uint64 { return binary.LittleEndian.Uint64(append(b, make([]byte, 8)...)[:8]) }

package tape

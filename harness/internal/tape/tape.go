// Package tape replaces crypto/rand.Reader by a scripted byte stream and
// records how the code under test consumed it.
//
// A Tape is a pure function of its fields: byte i of the stream is Script[i]
// when i < len(Script) and a splitmix64-derived byte keyed by TailKey
// otherwise. Nothing in here calls an RNG, reads the clock or depends on map
// order, so a case that carries a Tape replays exactly.
package tape

import (
	"crypto/rand"
	"encoding/binary"
	"errors"
	"io"
	"os"
	"syscall"
)

// CapExceeded is the panic value raised by the reader when the code under
// test asks for more bytes than Cap allows. Harness code recovers it and
// reports "inconclusive", never a violation (except where stated).
type CapExceeded struct{ Pos int }

// InjectedFault is the error value returned by fault injection with Kind 0.
var InjectedFault = errors.New("tape: injected read fault")

// Fault describes one injected failure of the random source.
type Fault struct {
	AtRead  int  // index (0-based) of the Read call that fails
	Deliver int  // bytes delivered by the failing call (clamped below request)
	Kind    int  // 0 custom error, 1 io.EOF, 2 io.ErrUnexpectedEOF
	Persist bool // true: every later call fails too (delivering 0 bytes)
	ShortOK bool // true: the faulting call returns (Deliver, nil) - a short successful read
}

func (f *Fault) err() error {
	switch f.Kind {
	case 1:
		return io.EOF
	case 2:
		return io.ErrUnexpectedEOF
	case 3:
		return syscall.EAGAIN // an error type that reports Temporary() == true
	case 4:
		return &os.PathError{Op: "read", Path: "/dev/urandom", Err: syscall.EINTR}
	}
	return InjectedFault
}

// ReadRec is one recorded Read call.
type ReadRec struct {
	Req, Got int
	Err      bool
}

// Tape implements io.Reader.
type Tape struct {
	Script   []byte
	TailKey  uint64
	Cap      int   // maximum bytes served; 0 means DefaultCap
	MaxReads int   // maximum Read calls; 0 means 1<<22 (a call beyond it panics with CapExceeded)
	Chunks   []int // cyclic plan of delivery sizes (0 = a (0,nil) read); nil: serve whole request
	Fault    *Fault

	// state
	Pos      int // bytes consumed from the stream
	NReads   int // Read calls
	override []byte
	Log      []ReadRec // first LogMax calls
	LogMax   int
	chunkIx  int
	zeroRun  int
	faulted  bool
	// Unannounced counts bytes that were read while no bounded draw had been
	// announced since the last Mark (maintained by package enum).
	OnRead func(n int)
}

// DefaultCap bounds every tape so no call under test can spin forever.
const DefaultCap = 1 << 22

func splitmix(x uint64) uint64 {
	x += 0x9E3779B97F4A7C15
	z := x
	z = (z ^ (z >> 30)) * 0xBF58476D1CE4E5B9
	z = (z ^ (z >> 27)) * 0x94D049BB133111EB
	return z ^ (z >> 31)
}

// ByteAt returns byte i of the underlying stream (ignoring overrides).
func (t *Tape) ByteAt(i int) byte {
	if i < len(t.Script) {
		return t.Script[i]
	}
	j := i - len(t.Script)
	w := splitmix(t.TailKey*0x9E3779B97F4A7C15 + uint64(j/8))
	return byte(w >> (8 * uint(j%8)))
}

// PushWord makes w the next four bytes served (big endian), ahead of the
// stream. The stream position still advances, so accounting in bytes stays
// uniform.
func (t *Tape) PushWord(w uint32) {
	var b [4]byte
	binary.BigEndian.PutUint32(b[:], w)
	t.override = append(t.override[:0], b[:]...)
}

// PendingOverride reports whether pushed bytes are still unserved.
func (t *Tape) PendingOverride() int { return len(t.override) }

func (t *Tape) capv() int {
	if t.Cap > 0 {
		return t.Cap
	}
	return DefaultCap
}

func (t *Tape) Read(p []byte) (int, error) {
	idx := t.NReads
	t.NReads++
	mr := t.MaxReads
	if mr == 0 {
		mr = 1 << 22
	}
	if idx >= mr {
		panic(CapExceeded{t.Pos})
	}
	n := len(p)
	var err error
	if f := t.Fault; f != nil {
		if idx == f.AtRead && !t.faulted {
			t.faulted = true
			d := f.Deliver
			if d >= n {
				d = n - 1
			}
			if d < 0 {
				d = 0
			}
			n = d
			if !f.ShortOK {
				err = f.err()
			}
		} else if t.faulted && f.Persist && !f.ShortOK {
			n = 0
			err = f.err()
		}
	}
	if err == nil && t.Chunks != nil && len(t.Chunks) > 0 && !(t.Fault != nil && idx == t.Fault.AtRead) {
		c := t.Chunks[t.chunkIx%len(t.Chunks)]
		t.chunkIx++
		if c == 0 {
			t.zeroRun++
			if t.zeroRun > 3 { // never starve io.ReadFull forever
				c = 1
				t.zeroRun = 0
			}
		} else {
			t.zeroRun = 0
		}
		if c < n {
			n = c
		}
	}
	if t.Pos+n > t.capv() {
		panic(CapExceeded{t.Pos})
	}
	for i := 0; i < n; i++ {
		if len(t.override) > 0 {
			p[i] = t.override[0]
			t.override = t.override[1:]
		} else {
			p[i] = t.ByteAt(t.Pos)
		}
		t.Pos++
	}
	if len(t.Log) < t.LogMax {
		t.Log = append(t.Log, ReadRec{len(p), n, err != nil})
	}
	if t.OnRead != nil {
		t.OnRead(n)
	}
	return n, err
}

// Reset rewinds the tape to its initial state, keeping the script.
func (t *Tape) Reset() {
	t.Pos, t.NReads, t.chunkIx, t.zeroRun, t.faulted = 0, 0, 0, 0, false
	t.override = t.override[:0]
	t.Log = t.Log[:0]
}

// FromWords builds a script from 32-bit words (big endian).
func FromWords(ws []uint32, tailKey uint64) *Tape {
	b := make([]byte, 4*len(ws))
	for i, w := range ws {
		binary.BigEndian.PutUint32(b[4*i:], w)
	}
	return &Tape{Script: b, TailKey: tailKey}
}

// Install makes t the process-wide crypto/rand.Reader and returns a function
// restoring the previous one.
func Install(t io.Reader) (restore func()) {
	old := rand.Reader
	rand.Reader = t
	return func() { rand.Reader = old }
}

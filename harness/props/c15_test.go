package props

import (
	"fmt"
	"math"
	"reflect"
	"strings"
	"testing"

	"go.1password.io/spg"
	"pgregory.net/rapid"

	"verif/harness/internal/ev"
	"verif/harness/internal/gen"
	"verif/harness/internal/oracle"
	"verif/harness/internal/tape"
)

// C15 - calls are pure: results reflect the recipe's current fields, not call history.
// Model-based operation sequences: the model is "a freshly constructed recipe
// with the same public field values, fed the same stream".

type c15Op struct {
	Op     string       `json:"op"`     // set | call
	Target int          `json:"target"` // 0..2 character recipes, 3..4 wordlist recipes
	Field  string       `json:"field,omitempty"`
	Int    int          `json:"int,omitempty"`
	Str    string       `json:"str,omitempty"`
	Sets   []string     `json:"sets,omitempty"`
	Sep    *gen.SepSpec `json:"sep,omitempty"`
	Method string       `json:"method,omitempty"`
	Script []uint32     `json:"script,omitempty"`
	Key    uint64       `json:"key,omitempty"`
}

type c15Case struct {
	Chars []oracle.CharSpec `json:"chars"`
	WLs   []gen.WLSpec      `json:"wls"`
	Ops   []c15Op           `json:"ops"`
}

type callResult struct {
	Tok   string
	Bits  uint32
	Str   string
	Err   bool
	Panic bool
	Pos   int
	Size  uint32
}

var c15LastPw *spg.Password // password returned by the most recent c15Call (nil if none)

func c15Call(method string, tp *tape.Tape, cr *spg.CharRecipe, wr *spg.WLRecipe) callResult {
	var res callResult
	c15LastPw = nil
	g := func() (*spg.Password, error) {
		switch method {
		case "Generate":
			if cr != nil {
				return cr.Generate()
			}
			return wr.Generate()
		case "Entropy":
			if cr != nil {
				res.Bits = math.Float32bits(cr.Entropy())
			} else {
				res.Bits = math.Float32bits(wr.Entropy())
			}
		case "Alphabet":
			res.Str = cr.Alphabet()
		case "SuccessProbability":
			res.Bits = math.Float32bits(cr.SuccessProbability())
		case "Size":
			res.Size = wr.Size()
		}
		return nil, nil
	}
	o := callRaw(tp, g)
	if o.Pw != nil {
		c15LastPw = o.Pw
		res.Tok = tokKey(toToks(o.Pw.Tokens()))
		res.Bits = math.Float32bits(o.Pw.Entropy)
	}
	res.Err = o.Err != nil
	res.Panic = o.Panic != nil
	res.Pos = tp.Pos
	return res
}

// readOrder reads the words of a list in index order (not sorted).
func readOrder(wl *spg.WordList) []string {
	r := spg.NewWLRecipe(1, wl)
	var out []string
	for j := uint32(0); j < wl.Size(); j++ {
		jj := j // every draw steered to alternative j, wherever the word draw sits
		o := callForced(nil, func(int, uint32) uint32 { return jj }, 5, r.Generate)
		if o.Pw == nil {
			return nil
		}
		out = append(out, o.Pw.String())
	}
	return out
}

func c15Run(c c15Case) error {
	spareCap = 3 // RequireSets slices are prefixes of longer caller-owned arrays
	defer func() { spareCap = 0 }()
	nC := len(c.Chars)
	// live values as a caller would hold them
	live := make([]*spg.CharRecipe, nC)
	mirror := make([]oracle.CharSpec, nC)
	callerSets := make([][]string, nC) // shares the backing array with the recipe
	for i, sp := range c.Chars {
		r := toRecipe(sp)
		live[i] = &r
		mirror[i] = sp
		mirror[i].RequireSets = append([]string(nil), sp.RequireSets...)
		callerSets[i] = r.RequireSets
	}
	type wlState struct {
		r      *spg.WLRecipe
		list   *spg.WordList
		input  []string
		inCopy []string
		spec   gen.WLSpec
		order  []string
	}
	var wls []*wlState
	for _, w := range c.WLs {
		in := append([]string{}, w.Words...)
		wl, err := spg.NewWordList(in)
		if err != nil {
			return &ev.Skip{Why: "empty list"}
		}
		r := spg.NewWLRecipe(w.Length, wl)
		r.Capitalize = spg.CapScheme(w.Scheme)
		r.SeparatorChar, r.SeparatorFunc, _ = buildSep(w.Sep)
		wls = append(wls, &wlState{r: r, list: wl, input: in, inCopy: append([]string{}, in...), spec: w, order: readOrder(wl)})
	}
	oldT, oldF := spg.MaxTrials, spg.MaxFailRate
	defer func() { spg.MaxTrials, spg.MaxFailRate = oldT, oldF }()
	cfgT, cfgF := oldT, oldF // what the caller last configured
	lastCallOn := -1
	setSince := map[int]bool{}
	nontrivial := false
	for step, op := range c.Ops {
		isChar := op.Target < nC
		var ws *wlState
		if !isChar {
			if len(wls) == 0 {
				continue
			}
			ws = wls[(op.Target-nC)%len(wls)]
		}
		if op.Op == "config" {
			// the exported retry budget is configuration the caller may change
			spg.MaxTrials = op.Int
			cfgT = op.Int
			for k := range setSince {
				delete(setSince, k)
			}
			for i := 0; i < nC+len(wls); i++ {
				setSince[i] = true
			}
			continue
		}
		if op.Op == "set" {
			setSince[op.Target] = true
			if isChar {
				r, m := live[op.Target], &mirror[op.Target]
				switch op.Field {
				case "Length":
					r.Length, m.Length = op.Int, op.Int
				case "Allow":
					r.Allow, m.Allow = spg.CTFlag(op.Int), uint32(op.Int)
				case "Require":
					r.Require, m.Require = spg.CTFlag(op.Int), uint32(op.Int)
				case "Exclude":
					r.Exclude, m.Exclude = spg.CTFlag(op.Int), uint32(op.Int)
				case "AllowChars":
					r.AllowChars, m.AllowChars = op.Str, op.Str
				case "ExcludeChars":
					r.ExcludeChars, m.ExcludeChars = op.Str, op.Str
				case "RequireSets":
					ns := append([]string(nil), op.Sets...)
					r.RequireSets = ns
					callerSets[op.Target] = ns
					m.RequireSets = append([]string(nil), op.Sets...)
				case "RequireSetsSameShape":
					// same number of sets, same sizes, different members/overlap
					ns := make([]string, len(m.RequireSets))
					for i, set := range m.RequireSets {
						cs := oracle.Chars(set)
						out := ""
						for j := range cs {
							out += gen.CharPool[(op.Int+i*3+j)%len(gen.CharPool)]
						}
						ns[i] = out
					}
					r.RequireSets = ns
					callerSets[op.Target] = ns
					m.RequireSets = append([]string(nil), ns...)
				case "RequireSetsElem":
					if len(callerSets[op.Target]) > 0 {
						i := op.Int % len(callerSets[op.Target])
						callerSets[op.Target][i] = op.Str // caller writes through its own slice
						m.RequireSets[i] = op.Str
					}
				}
			} else {
				switch op.Field {
				case "Length":
					ws.r.Length, ws.spec.Length = op.Int, op.Int
				case "Capitalize":
					ws.r.Capitalize, ws.spec.Scheme = spg.CapScheme(op.Str), op.Str
				case "Separator":
					if op.Sep != nil && op.Sep.Kind != "script" {
						ws.r.SeparatorChar, ws.r.SeparatorFunc, _ = buildSep(*op.Sep)
						ws.spec.Sep = *op.Sep
					}
				}
			}
			continue
		}
		// call
		method := op.Method
		if isChar && method == "Size" {
			method = "Entropy"
		}
		if !isChar && (method == "Alphabet" || method == "SuccessProbability") {
			method = "Entropy"
		}
		mk := func() *tape.Tape { t := tape.FromWords(op.Script, op.Key); t.Cap = 1 << 20; return t }
		var got, want callResult
		if isChar {
			got = c15Call(method, mk(), live[op.Target], nil)
			fresh := toRecipe(mirror[op.Target])
			want = c15Call(method, mk(), &fresh, nil)
		} else {
			got = c15Call(method, mk(), nil, ws.r)
			if method == "Generate" && c15LastPw != nil && ws.spec.Sep.Kind != "script" {
				// the password honours the CURRENT fields (the fresh copy below
				// shares the list object, so state kept in the list would fool it)
				spec := ws.spec
				spec.Words = ws.inCopy
				_, _, m := buildSep(spec.Sep)
				if rf, b := sepRefused(spec.Sep); rf || b {
					m.Refused = true
				}
				if spec.Sep.Kind != "nested" {
					if err := checkWLStructure(spec, m, c15LastPw); err != nil {
						return fmt.Errorf("step %d: Generate on wordlist recipe %d does not honour its current fields: %w", step, op.Target, err)
					}
				}
			}
			fresh := spg.NewWLRecipe(ws.spec.Length, ws.list)
			fresh.Capitalize = spg.CapScheme(ws.spec.Scheme)
			fresh.SeparatorChar, fresh.SeparatorFunc, _ = buildSep(ws.spec.Sep)
			want = c15Call(method, mk(), nil, fresh)
			if method == "Generate" && ws.spec.Sep.Kind == "const" {
				// a value copy with another SeparatorChar is a recipe of its own:
				// its passwords reflect ITS current fields, not the original's
				cp := *ws.r
				cp.SeparatorChar = ws.spec.Sep.Const + "+"
				gotCp := c15Call(method, mk(), nil, &cp)
				fr := spg.NewWLRecipe(ws.spec.Length, ws.list)
				fr.Capitalize = spg.CapScheme(ws.spec.Scheme)
				fr.SeparatorChar, fr.SeparatorFunc = cp.SeparatorChar, nil
				if wantCp := c15Call(method, mk(), nil, fr); !reflect.DeepEqual(gotCp, wantCp) {
					return fmt.Errorf("step %d: Generate on a value copy of wordlist recipe %d with SeparatorChar %q gave %+v; a freshly constructed recipe with the same field values and the same random bytes gives %+v", step, op.Target, cp.SeparatorChar, gotCp, wantCp)
				}
				ev.Class("wl_value_copy_with_other_separator")
			}
		}
		if (lastCallOn >= 0 && lastCallOn != op.Target) || setSince[op.Target] {
			nontrivial = true
		}
		if !reflect.DeepEqual(got, want) {
			return fmt.Errorf("step %d: %s on recipe %d gave %+v; a freshly constructed recipe with the same field values and the same random bytes gives %+v", step, method, op.Target, got, want)
		}
		// the result is a function of the *current* field values alone: compare
		// with the reference model as well (a package-level cache would fool the
		// fresh-copy comparison, because the fresh copy shares the package)
		if isChar && !got.Panic {
			m := mirror[op.Target]
			switch method {
			case "Alphabet":
				if want := strings.Join(m.Alphabet(), ""); got.Str != want {
					return fmt.Errorf("step %d: Alphabet() = %q, the current field values give %q", step, got.Str, want)
				}
			case "Entropy", "Generate":
				if method == "Generate" && got.Tok == "" {
					break
				}
				if m.EmptiedRequired() == 0 && len(m.AlphabetSet()) > 0 && m.Length >= 1 {
					want := oracle.Log2Big(m.CountIE())
					if gotE := math.Float32frombits(got.Bits); !oracle.Close32(gotE, want, 2, 0) {
						return fmt.Errorf("step %d: %s reports entropy %v, the current field values give %.6f (stale or history-dependent result)", step, method, gotE, want)
					}
				}
			case "SuccessProbability":
				if pr, ok := m.PSuccess(); ok && m.Length >= 1 && pr.Sign() > 0 {
					hu := oracle.Log2Big(m.Universe())
					lg, lw := math.Log2(float64(math.Float32frombits(got.Bits))), oracle.Log2Rat(pr)
					if math.Abs(lg-lw) > 3*oracle.Ulp32(hu)+1e-6 {
						return fmt.Errorf("step %d: SuccessProbability() = %v, the current field values give %v (stale or history-dependent result)", step, math.Float32frombits(got.Bits), pr)
					}
				}
			}
			if method == "Generate" && got.Tok != "" {
				// the password honours the current fields
				var sb strings.Builder
				for _, part := range strings.Split(strings.TrimSuffix(got.Tok, "|"), "|") {
					f := strings.SplitN(part, ":", 3)
					if len(f) == 3 {
						sb.WriteString(f[2])
					}
				}
				if ok, why := m.Valid(sb.String()); !ok && !strings.Contains(sb.String(), "|") && !strings.Contains(sb.String(), ":") {
					return fmt.Errorf("step %d: Generate returned %q, which the current field values do not allow (%s)", step, sb.String(), why)
				}
			}
		}
		// (i) nothing the caller owns was modified
		if isChar {
			r, m := live[op.Target], mirror[op.Target]
			if r.Length != m.Length || uint32(r.Allow) != m.Allow || uint32(r.Require) != m.Require || uint32(r.Exclude) != m.Exclude || r.AllowChars != m.AllowChars || r.ExcludeChars != m.ExcludeChars {
				return fmt.Errorf("step %d: %s modified the recipe's public fields: %+v, caller set %+v", step, method, *r, m)
			}
			if len(r.RequireSets) != len(m.RequireSets) {
				return fmt.Errorf("step %d: %s changed RequireSets to %q (caller set %q)", step, method, r.RequireSets, m.RequireSets)
			}
			for i, sv := range r.RequireSets[:cap(r.RequireSets)] {
				if i >= len(r.RequireSets) && sv != spareSentinel && sv != "" {
					return fmt.Errorf("step %d: %s wrote %q into the spare capacity behind the caller's RequireSets slice", step, method, sv)
				}
			}
			for i := range m.RequireSets {
				if r.RequireSets[i] != m.RequireSets[i] || callerSets[op.Target][i] != m.RequireSets[i] {
					return fmt.Errorf("step %d: %s modified the caller's RequireSets slice: %q, caller wrote %q", step, method, callerSets[op.Target], m.RequireSets)
				}
			}
		} else {
			if ws.r.Length != ws.spec.Length || string(ws.r.Capitalize) != ws.spec.Scheme {
				return fmt.Errorf("step %d: %s modified the wordlist recipe's fields", step, method)
			}
			if ws.spec.Sep.Kind == "const" && ws.r.SeparatorChar != ws.spec.Sep.Const {
				return fmt.Errorf("step %d: %s modified SeparatorChar", step, method)
			}
			if !reflect.DeepEqual(ws.input, ws.inCopy) {
				return fmt.Errorf("step %d: the slice passed to NewWordList was modified: %q", step, ws.input)
			}
		}
		if spg.MaxTrials != cfgT || spg.MaxFailRate != cfgF {
			return fmt.Errorf("step %d: %s changed the package configuration: MaxTrials %d (caller set %d), MaxFailRate %g (caller set %g)", step, method, spg.MaxTrials, cfgT, spg.MaxFailRate, cfgF)
		}
		lastCallOn = op.Target
		delete(setSince, op.Target)
	}
	for i, ws := range wls {
		if after := readOrder(ws.list); !reflect.DeepEqual(after, ws.order) {
			return fmt.Errorf("word list %d changed during the call sequence: %q -> %q", i, ws.order, after)
		}
	}
	if nontrivial {
		ev.NonTrivial(fmt.Sprintf("%+v", c))
	}
	ev.ClassN("steps", int64(len(c.Ops)))
	ev.Sample("c15", 2, c)
	return nil
}

func c15Gen(t *rapid.T) c15Case {
	var c c15Case
	nC := rapid.IntRange(1, 3).Draw(t, "nchar")
	for i := 0; i < nC; i++ {
		c.Chars = append(c.Chars, gen.CharSpec(t, gen.CharOpts{MaxLen: 12, MaxReq: 3, Small: rapid.Bool().Draw(t, "small")}))
	}
	nW := rapid.IntRange(1, 2).Draw(t, "nwl")
	for i := 0; i < nW; i++ {
		w := gen.WL(t, gen.WLOpts{List: gen.WordListOpts{Min: 1, Max: 6}, MaxLen: 5, UnknownCap: true})
		c.WLs = append(c.WLs, w)
	}
	nOps := rapid.IntRange(1, 40).Draw(t, "nops")
	for i := 0; i < nOps; i++ {
		var op c15Op
		op.Target = rapid.IntRange(0, nC+nW-1).Draw(t, "target")
		if rapid.IntRange(0, 19).Draw(t, "config") == 0 {
			op.Op = "config"
			op.Int = rapid.SampledFrom([]int{1, 5, 200, 200}).Draw(t, "maxtrials")
			c.Ops = append(c.Ops, op)
			continue
		}
		if rapid.IntRange(0, 2).Draw(t, "kind") == 0 {
			op.Op = "set"
			if op.Target < nC {
				op.Field = rapid.SampledFrom([]string{"Length", "Allow", "Require", "Exclude", "AllowChars", "ExcludeChars", "RequireSets", "RequireSetsElem", "RequireSetsSameShape", "RequireSetsSameShape"}).Draw(t, "field")
				switch op.Field {
				case "Length":
					op.Int = rapid.IntRange(0, 12).Draw(t, "len")
				case "Allow", "Require", "Exclude":
					op.Int = int(gen.Flags(t, "flag", 30)) & 31 // the five documented class bits only
				case "RequireSetsSameShape":
					op.Int = rapid.IntRange(0, 29).Draw(t, "shift")
				case "AllowChars", "ExcludeChars", "RequireSetsElem":
					n := rapid.IntRange(0, 4).Draw(t, "n")
					for j := 0; j < n; j++ {
						op.Str += rapid.SampledFrom(gen.CharPool).Draw(t, "ch")
					}
					op.Int = rapid.IntRange(0, 7).Draw(t, "idx")
				case "RequireSets":
					n := rapid.IntRange(0, 3).Draw(t, "nsets")
					for j := 0; j < n; j++ {
						s := ""
						for k := rapid.IntRange(0, 3).Draw(t, "k"); k > 0; k-- {
							s += rapid.SampledFrom(gen.CharPool).Draw(t, "ch")
						}
						op.Sets = append(op.Sets, s)
					}
				}
			} else {
				op.Field = rapid.SampledFrom([]string{"Length", "Capitalize", "Separator"}).Draw(t, "wfield")
				switch op.Field {
				case "Length":
					op.Int = rapid.IntRange(0, 6).Draw(t, "len")
				case "Capitalize":
					op.Str = gen.Scheme(t, true)
				case "Separator":
					s := gen.Sep(t, false, false)
					op.Sep = &s
				}
			}
		} else {
			op.Op = "call"
			op.Method = rapid.SampledFrom([]string{"Generate", "Generate", "Entropy", "Alphabet", "SuccessProbability", "Size"}).Draw(t, "method")
			op.Script = gen.Uint32s(t, "script", 4)
			op.Key = rapid.Uint64().Draw(t, "key")
		}
		c.Ops = append(c.Ops, op)
	}
	return c
}

func TestC15(t *testing.T) {
	layoutLenient = true
	ev.Fixed(t, "c15_first_call", func(do func(int) bool) { do(0) }, func(int) error {
		if ev.Cfg.Replay != "" {
			return nil // only meaningful as the first thing a process does
		}
		return firstCallCheck()
	})
	learnClasses()
	if !requireHooks(t) {
		return
	}
	ev.Check(t, "c15_pure", ev.N(16000, 200000), c15Gen, c15Run)
	// repeated Alphabet() calls on an untouched recipe ("same value every call")
	ev.Check(t, "c15_alphabet_stable", ev.N(800, 8000), func(t *rapid.T) oracle.CharSpec {
		sp := gen.CharSpec(t, gen.CharOpts{MaxLen: 8, MaxReq: 2})
		n := rapid.IntRange(0, 4).Draw(t, "stray")
		for i := 0; i < n; i++ {
			// only valid UTF-8: with stray bytes the pinned code itself is not a
			// function of the recipe (two stray bytes can merge into one character
			// depending on set iteration order) - outside the stated input domain
			sp.AllowChars += rapid.SampledFrom([]string{"\uFFFD", "\u0301", "É", "\u00a0"}).Draw(t, "odd_char")
		}
		return sp
	}, func(sp oracle.CharSpec) error {
		r := toRecipe(sp)
		first := r.Alphabet()
		for i := 0; i < 12; i++ {
			if a := r.Alphabet(); a != first {
				return fmt.Errorf("Alphabet() of an untouched recipe returned %q and then %q", first, a)
			}
		}
		ev.NonTrivial(fmt.Sprintf("%+v", sp))
		return nil
	})
}

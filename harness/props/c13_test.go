package props

import (
	"fmt"
	"math"
	"math/big"
	"testing"

	"go.1password.io/spg"
	"pgregory.net/rapid"

	"verif/harness/internal/ev"
	"verif/harness/internal/gen"
	"verif/harness/internal/oracle"
	"verif/harness/internal/tape"
)

// C13 - Generate fails only when the recipe cannot be honoured: an error, never a panic.

type c13Case struct {
	Spec      oracle.CharSpec `json:"spec"`
	MaxTrials int             `json:"max_trials"`
	MaxFail   float64         `json:"max_fail"`
	Script    []uint32        `json:"script"`
	Key       uint64          `json:"key"`
	AllFail   bool            `json:"all_fail"`
}

func band(p float64, thr float64) string {
	switch {
	case p == 0:
		return "p=0"
	case p == 1:
		return "p=1"
	case p < thr*0.8:
		return "p<threshold"
	case p < thr*1.25:
		return "p~threshold"
	case p < 0.5:
		return "p<0.5"
	}
	return "p>=0.5"
}

func c13Run(c c13Case) error {
	oldT, oldF := spg.MaxTrials, spg.MaxFailRate
	spg.MaxTrials, spg.MaxFailRate = c.MaxTrials, c.MaxFail
	defer func() { spg.MaxTrials, spg.MaxFailRate = oldT, oldF }()
	sp := c.Spec
	r := toRecipe(sp)
	refused, border := sp.Feasibility(c.MaxTrials, c.MaxFail)
	pRat, pok := sp.PSuccess()
	pf := 0.0
	if pok {
		pf, _ = pRat.Float64()
	}
	thr := 1 - math.Pow(c.MaxFail, 1/float64(c.MaxTrials))
	ev.Class("band:" + band(pf, thr))
	if len(sp.Required()) > 0 && pf > 0 && pf < 1 {
		ev.NonTrivial(fmt.Sprintf("%+v|%d|%g|%v", sp, c.MaxTrials, c.MaxFail, c.AllFail))
	}
	ev.Sample("c13_char", 4, c)

	// SuccessProbability() = exact fraction (defined when the universe is non-empty)
	if pok && sp.Length >= 1 {
		var got float32
		var pan interface{}
		func() {
			defer func() { pan = recover() }()
			got = r.SuccessProbability()
		}()
		if pan != nil {
			return fmt.Errorf("SuccessProbability() panicked: %v", pan)
		}
		if math.IsNaN(float64(got)) {
			return fmt.Errorf("SuccessProbability() is NaN, exact value %v", pRat)
		}
		if pRat.Sign() == 0 {
			if got != 0 {
				return fmt.Errorf("SuccessProbability() = %v, but no candidate can satisfy the requirements", got)
			}
		} else {
			hu := oracle.Log2Big(sp.Universe())
			lg, lw := math.Log2(float64(got)), oracle.Log2Rat(pRat)
			if math.Abs(lg-lw) > 3*oracle.Ulp32(hu)+1e-6 {
				return fmt.Errorf("SuccessProbability() = %v (2^%.6f), exact fraction %v = 2^%.6f", got, lg, pRat, lw)
			}
		}
	}

	var o outcome
	if c.AllFail && !refused && !border && pf < 1 && pf > 0 {
		// a stream on which every permitted attempt fails, built from rejected
		// single attempts (cell_test.go): an error after exactly those attempts'
		// draws, and the last permitted attempt is really used
		ref, err := findRef(r, c.Key, 300)
		if err != nil {
			if ev.IsSkip(err) {
				if pf*float64(300) > 60 {
					return fmt.Errorf("none of 300 single attempts driven by uniform index choices succeeded although a candidate satisfies the recipe with probability %.4g", pf)
				}
				return nil
			}
			return err
		}
		var rej [][]uint32
		for i := 0; i < 3; i++ {
			v, err := findRejectedAttempt(r, c.Key+uint64(i)*977, 400)
			if err != nil {
				return err
			}
			if v != nil {
				rej = append(rej, v)
			}
		}
		if len(rej) == 0 {
			ev.Class("no_failing_candidate_found")
			return nil
		}
		ev.Class("all_attempts_fail_stream")
		return budgetCheck(r, ref, rej)
	}

	o = callRaw(tape.FromWords(c.Script, c.Key), r.Generate)
	if o.Panic != nil {
		return fmt.Errorf("Generate panicked: %v", o.Panic)
	}
	if o.Cap {
		return &ev.Inc{Why: "read cap hit"}
	}
	if (o.Pw == nil) == (o.Err == nil) {
		return fmt.Errorf("Generate returned password=%v and err=%v; exactly one must be set", o.Pw, o.Err)
	}
	if border {
		ev.Class("borderline_not_judged")
		return nil
	}
	if refused {
		ev.Class("refused")
		if o.Err == nil {
			return fmt.Errorf("recipe cannot be honoured (Length %d, alphabet %d, p=%.4g, MaxTrials %d, MaxFailRate %g) but Generate returned %q", sp.Length, len(sp.AlphabetSet()), pf, c.MaxTrials, c.MaxFail, o.Pw.String())
		}
		return nil
	}
	ev.Class("must_be_honoured")
	if o.Err != nil && pRat.Cmp(big.NewRat(1, 1)) == 0 {
		return fmt.Errorf("every candidate satisfies this recipe (no required set has a non-excluded member left unmet), yet Generate failed: %v", o.Err)
	}
	if o.Err != nil {
		// only legitimate if the stream really exhausted the budget
		nd := len(o.S.Draws)
		if nd == 0 {
			return fmt.Errorf("Generate refused a recipe it can honour (p=%.6g >= threshold %.6g with MaxTrials %d, MaxFailRate %g): %v", pf, thr, c.MaxTrials, c.MaxFail, o.Err)
		}
		// every permitted attempt must really have been made and have failed:
		// the source bytes are replayed attempt by attempt as fresh streams with
		// the budget set to one attempt (no assumption about an attempt's size)
		// (needs "a word is read when its draw is made": an implementation
		// that reads ahead cannot be cut into attempts by bytes)
		if o.S.Pre != 0 {
			return &ev.Inc{Why: "source bytes read outside a bounded draw"}
		}
		for i, d := range o.S.Draws {
			if d.Bound > 1 && (d.Bytes < 4 || d.Bytes%4 != 0) {
				return &ev.Inc{Why: fmt.Sprintf("draw %d consumed %d bytes: reads are not made draw by draw", i, d.Bytes)}
			}
		}
		end := o.S.Tape.Pos
		pos := 0
		for a := 0; a < c.MaxTrials; a++ {
			if pos >= end {
				return fmt.Errorf("Generate gave up (%v) after %d source bytes = %d attempts; %d attempts are permitted", o.Err, end, a, c.MaxTrials)
			}
			seg := make([]byte, 0, end-pos)
			for i := pos; i < end; i++ {
				seg = append(seg, o.S.Tape.ByteAt(i))
			}
			var oo outcome
			singleAttempt(func() { oo = callRaw(&tape.Tape{Script: seg, TailKey: c.Key ^ 0x9e37}, r.Generate) })
			if oo.Panic != nil {
				return fmt.Errorf("Generate panicked on the replay of attempt %d: %v", a+1, oo.Panic)
			}
			k := oo.S.Tape.Pos
			if k == 0 {
				return &ev.Inc{Why: "a single attempt consumed no source bytes"}
			}
			if pos+k > end {
				return fmt.Errorf("Generate gave up (%v) after %d source bytes, inside attempt %d of the %d permitted", o.Err, end, a+1, c.MaxTrials)
			}
			if oo.Pw != nil {
				return fmt.Errorf("Generate returned an error (%v) although attempt %d of %d produced the valid candidate %q", o.Err, a+1, c.MaxTrials, oo.Pw.String())
			}
			pos += k
		}
		if pos != end {
			return fmt.Errorf("Generate consumed %d source bytes; the %d permitted attempts end after %d: more attempts than permitted", end, c.MaxTrials, pos)
		}
		ev.Class("budget_really_exhausted")
		return nil
	}
	return checkCharPassword(sp, o.Pw)
}

func c13WithSiblings(c c13Case) error {
	if err := c13Run(c); err != nil {
		return err
	}
	if c.AllFail {
		return nil
	}
	for i, sib := range gen.Siblings(c.Spec) {
		d := c
		d.Spec = sib
		ev.Eval(1)
		if err := c13Run(d); err != nil && !ev.IsSkip(err) {
			if _, inc := err.(*ev.Inc); inc {
				return err
			}
			return fmt.Errorf("after using %+v, the sibling recipe #%d %+v: %w", c.Spec, i, sib, err)
		}
	}
	return nil
}

func maxInt(a, b int) int {
	if a > b {
		return a
	}
	return b
}

// wordlist side
type c13WL struct {
	Kind   int      `json:"kind"` // 0 zero recipe, 1 NewWLRecipe(n,nil), 2 zero WordList, 3 real list
	Length int      `json:"length"`
	Words  []string `json:"words"`
	Scheme string   `json:"scheme"`
	Key    uint64   `json:"key"`
}

func c13RunWL(c c13WL) error {
	var r *spg.WLRecipe
	should := false
	switch c.Kind {
	case 0:
		r = &spg.WLRecipe{Length: c.Length, Capitalize: spg.CapScheme(c.Scheme)}
	case 1:
		r = spg.NewWLRecipe(c.Length, nil)
	case 2:
		r = spg.NewWLRecipe(c.Length, &spg.WordList{})
	default:
		wl, err := spg.NewWordList(c.Words)
		if err != nil {
			return &ev.Skip{Why: "empty"}
		}
		r = spg.NewWLRecipe(c.Length, wl)
		should = c.Length >= 1
	}
	r.Capitalize = spg.CapScheme(c.Scheme)
	o := callRaw(&tape.Tape{TailKey: c.Key | 1}, r.Generate)
	ev.Class(fmt.Sprintf("wl_kind=%d", c.Kind))
	if c.Kind < 3 || c.Length < 1 {
		ev.NonTrivial(fmt.Sprintf("wl|%d|%d|%s", c.Kind, c.Length, c.Scheme))
	}
	ev.Sample("c13_wl", 3, c)
	if o.Panic != nil {
		return fmt.Errorf("WLRecipe.Generate panicked (kind %d, Length %d): %v", c.Kind, c.Length, o.Panic)
	}
	if (o.Pw == nil) == (o.Err == nil) {
		return fmt.Errorf("Generate returned password=%v and err=%v", o.Pw, o.Err)
	}
	if should && o.Err != nil {
		return fmt.Errorf("Generate refused a recipe with %d words and Length %d: %v", len(c.Words), c.Length, o.Err)
	}
	if !should && o.Pw != nil {
		return fmt.Errorf("Generate returned %q for a recipe that cannot be honoured (kind %d, Length %d)", o.Pw.String(), c.Kind, c.Length)
	}
	return nil
}

func c13Gen(t *rapid.T) c13Case {
	o := gen.CharOpts{MaxLen: 14, MaxReq: 3, Small: rapid.Bool().Draw(t, "small")}
	sp := gen.CharSpec(t, o)
	switch rapid.IntRange(0, 11).Draw(t, "degenerate") {
	case 0:
		sp.Length = rapid.IntRange(-3, 0).Draw(t, "badlen")
	case 1:
		sp.Allow, sp.AllowChars, sp.Require, sp.RequireSets = 0, "", 0, nil // empty alphabet
	case 2:
		sp.ExcludeChars = sp.AllowChars // exclusion may empty things
	}
	c := c13Case{Spec: sp, MaxTrials: 200, MaxFail: 1e-9, Script: gen.Uint32s(t, "script", 6), Key: rapid.Uint64().Draw(t, "key")}
	if rapid.IntRange(0, 2).Draw(t, "vary") == 0 {
		c.MaxTrials = rapid.SampledFrom([]int{1, 5, 200, 1000}).Draw(t, "maxtrials")
		c.MaxFail = rapid.SampledFrom([]float64{1e-9, 1e-3, 0.5}).Draw(t, "maxfail")
	}
	c.AllFail = rapid.IntRange(0, 3).Draw(t, "allfail") == 0 && c.MaxTrials <= 200
	return c
}

// band-targeted recipes: one required set of k characters in an alphabet of u
func c13BandGen(t *rapid.T) c13Case {
	u := rapid.IntRange(2, 30).Draw(t, "u")
	k := rapid.IntRange(1, minInt(3, u-1)).Draw(t, "k")
	L := rapid.IntRange(1, 20).Draw(t, "L")
	pool := []string{"a", "b", "c", "d", "e", "f", "g", "h", "i", "j", "k", "l", "m", "n", "o", "p", "q", "r", "s", "t", "u", "v", "w", "x", "y", "z", "é", "ß", "λ", "正"}
	sp := oracle.CharSpec{Length: L}
	for i := 0; i < u-k; i++ {
		sp.AllowChars += pool[i]
	}
	req := ""
	for i := u - k; i < u; i++ {
		req += pool[i]
	}
	sp.RequireSets = []string{req}
	if rapid.Bool().Draw(t, "second") {
		sp.RequireSets = append(sp.RequireSets, pool[0]+oracle.Chars(req)[0])
	}
	return c13Case{Spec: sp, MaxTrials: 200, MaxFail: 1e-9, Script: gen.Uint32s(t, "script", 4), Key: rapid.Uint64().Draw(t, "key"), AllFail: rapid.IntRange(0, 4).Draw(t, "allfail") == 0}
}

func TestC13(t *testing.T) {
	if !requireHooks(t) {
		return
	}
	ev.Check(t, "c13_char", ev.N(24000, 300000), c13Gen, c13WithSiblings)
	ev.Check(t, "c13_bands", ev.N(16000, 200000), c13BandGen, c13Run)
	// the refusal threshold, scanned: one attempt succeeds with probability k/u
	ev.Fixed(t, "c13_threshold_scan", func(do func(c13Case) bool) {
		for u := 2; u <= 220; u++ {
			if u%ev.Cfg.NShards != ev.Cfg.Shard {
				continue
			}
			for k := 1; k < u && k*8 <= u*2; k++ { // k/u <= 0.25
				if ev.Cfg.Tier != "thorough" && (k*1000 < u*60 || k*1000 > u*140) {
					continue // quick: only the neighbourhood of the default threshold (0.06 .. 0.14)
				}
				sp := oracle.CharSpec{Length: 1}
				for i := 0; i < u; i++ {
					ch := string(rune(0x4E00 + i))
					if i < k {
						sp.RequireSets = []string{sp.RequireSetsOrEmpty() + ch}
					} else {
						sp.AllowChars += ch
					}
				}
				if !do(c13Case{Spec: sp, MaxTrials: 200, MaxFail: 1e-9, Key: uint64(u*1000 + k)}) {
					return
				}
			}
		}
	}, c13Run)
	ev.Check(t, "c13_wl", ev.N(8000, 80000), func(t *rapid.T) c13WL {
		return c13WL{
			Kind:   rapid.IntRange(0, 3).Draw(t, "kind"),
			Length: rapid.IntRange(-2, 6).Draw(t, "length"),
			Words:  gen.WordList(t, gen.WordListOpts{Min: 1, Max: 6}),
			Scheme: gen.Scheme(t, false), // what an undocumented scheme string means is not specified
			Key:    rapid.Uint64().Draw(t, "key"),
		}
	}, c13RunWL)
}

package props

import (
	"fmt"
	"math"
	"math/big"
	"testing"
	"verif/harness/internal/tape"

	"go.1password.io/spg"
	"pgregory.net/rapid"

	"verif/harness/internal/ev"
	"verif/harness/internal/gen"
	"verif/harness/internal/oracle"
)

// C06 - reported entropy never overstates (and equals the min-entropy).

func entBitsOK(bits map[uint32]int, want float32) error {
	for b := range bits {
		if b != math.Float32bits(want) {
			return fmt.Errorf("a returned Password carries Entropy %v, the recipe reports %v", math.Float32frombits(b), want)
		}
	}
	return nil
}

func checkMinEntropy(maxP *big.Rat, maxKey string, ent float32) error {
	hmin := -oracle.Log2Rat(maxP)
	if math.IsNaN(float64(ent)) {
		return fmt.Errorf("Entropy() is NaN")
	}
	if float64(ent) > hmin && !oracle.Close32(ent, hmin, 4, 0) {
		return fmt.Errorf("entropy overstated: Entropy() = %v bits but password %q has probability %v = 2^-%.4f", ent, maxKey, maxP, hmin)
	}
	if !oracle.Close32(ent, hmin, 4, 0) {
		return fmt.Errorf("Entropy() = %v bits but the most likely password %q has probability %v = 2^-%.4f (min-entropy)", ent, maxKey, maxP, hmin)
	}
	return nil
}

type c06WL struct {
	W gen.WLSpec `json:"w"`
}

func c06RunWL(c c06WL) error {
	w := c.W
	kept := oracle.Kept(w.Words)
	if !oracle.PremiseOK(kept) {
		return &ev.Skip{Why: "premise"}
	}
	r, m, err := buildWL(w)
	if err != nil {
		return &ev.Skip{Why: "empty list"}
	}
	m = declinedSep(w.Sep, m)
	capL := ev.Pick(20000, 200000)
	if _, ok := treeSize(len(kept), w.Length, len(m.Values), w.Scheme, w.Sep.Kind != "const", capL); !ok {
		return &ev.Skip{Why: "tree too large"}
	}
	ent := r.Entropy()
	d, err := enumWL(r, capL+10)
	if err != nil {
		return err
	}
	var maxP *big.Rat
	maxK := ""
	uniform := true
	for k, p := range d.P {
		if maxP == nil || p.Cmp(maxP) > 0 {
			if maxP != nil {
				uniform = false
			}
			maxP, maxK = p, k
		} else if p.Cmp(maxP) != 0 {
			uniform = false
		}
	}
	if !uniform {
		ev.Class("non_uniform_tree")
	}
	ev.Class("wl_scheme=" + w.Scheme)
	if !uniform || w.Sep.Kind == "func" || w.Sep.Kind == "preset" {
		ev.NonTrivial(fmt.Sprintf("wl|%v|%d|%s|%+v", kept, w.Length, w.Scheme, w.Sep))
	}
	ev.Sample("c06_wl", 3, c)
	if err := entBitsOK(d.EntBits, ent); err != nil {
		return err
	}
	if w.Sep.Kind == "draw" && w.Sep.DrawEnt == 0 && len(w.Sep.Draw) > 1 && w.Length > 1 {
		// the caller's separator under-claims: only "never overstated" applies
		hmin := -oracle.Log2Rat(maxP)
		if float64(ent) > hmin && !oracle.Close32(ent, hmin, 4, 0) {
			return fmt.Errorf("entropy overstated: Entropy() = %v, most likely password has probability 2^-%.4f", ent, hmin)
		}
		ev.Class("underclaiming_separator")
		return nil
	}
	return checkMinEntropy(maxP, maxK, ent)
}

type c06Char struct {
	Spec oracle.CharSpec `json:"spec"`
	Key  uint64          `json:"key"`
}

func c06RunChar(c c06Char) error {
	sp := c.Spec
	if refused, border := sp.Feasibility(spg.MaxTrials, spg.MaxFailRate); refused || border {
		return &ev.Skip{Why: "refused"}
	}
	if _, ok := sp.ValidStrings(ev.Pick(20000, 200000)); !ok {
		return &ev.Skip{Why: "cell too large"}
	}
	// recipes easily confused with this one are used first in this process
	for _, sib := range gen.Siblings(sp) {
		sr := toRecipe(sib)
		sr.Entropy()
		sr.Alphabet()
	}
	r := toRecipe(sp)
	ent := r.Entropy()
	ref, err := findRef(r, c.Key, 400)
	if err != nil {
		return err
	}
	cell, err := enumCell(r, ref, ev.Pick(20000, 200000)+10)
	if err != nil {
		return err
	}
	if err := entBitsOK(cell.EntBits, ent); err != nil {
		return err
	}
	// exact probability of the most likely password over the whole retry
	// process: P(s) = w(s) * (1 - q^T) / (1 - q), q = rejected weight of a candidate
	var maxW *big.Rat
	maxS := ""
	for s, w := range cell.Accepted {
		if maxW == nil || w.Cmp(maxW) > 0 {
			maxW, maxS = w, s
		}
	}
	if maxW == nil {
		return &ev.Skip{Why: "nothing accepted"}
	}
	// (the whole-process probability below takes the attempts to be identically
	// distributed and at most MaxTrials in number - C02's and C13's statements,
	// checked there)
	q := cell.RejW
	p := new(big.Rat).Set(maxW)
	if q.Sign() > 0 {
		// (1-q^T)/(1-q) in floating point on top of the exact per-candidate weight
		qf, _ := q.Float64()
		geo := (1 - math.Pow(qf, float64(spg.MaxTrials))) / (1 - qf)
		hmin := -oracle.Log2Rat(maxW) - math.Log2(geo)
		ev.Class("char_cell_with_rejections")
		ev.NonTrivial(fmt.Sprintf("char|%+v", sp))
		ev.Sample("c06_char", 3, c)
		if !oracle.Close32(ent, hmin, 4, 0) {
			return fmt.Errorf("Entropy() = %v but the most likely password %q has probability 2^-%.5f", ent, maxS, hmin)
		}
		return nil
	}
	ev.Class("char_cell_no_rejections")
	ev.Sample("c06_char", 3, c)
	return checkMinEntropy(p, maxS, ent)
}

func TestC06(t *testing.T) {
	if !requireHooks(t) {
		return
	}
	ev.Check(t, "c06_wl", ev.N(320, 3200), func(t *rapid.T) c06WL {
		// bias to lists with uncapitalisable / pre-capitalised words under one/random
		w := genSmallWL(t, ev.Pick(20000, 200000), true, nil)
		// (only the five documented scheme names: what another spelling means is
		// not specified - an implementation may fold case or refuse it)
		if rapid.IntRange(0, 1).Draw(t, "force_caps") == 0 {
			w.Scheme = rapid.SampledFrom([]string{"one", "random"}).Draw(t, "capscheme")
			if w.Length > 3 {
				w.Length = 3
			}
		}
		return c06WL{w}
	}, c06RunWL)
	// long character recipes with requirements (far beyond enumeration, counts
	// beyond 2^1024 included): whatever the distribution, no password can be
	// less likely than one in the number of strings the recipe allows, so the
	// reported entropy must not exceed log2 of that number (exact count)
	ev.Check(t, "c06_long_char_bound", ev.N(800, 8000), func(t *rapid.T) c06Char {
		sp := gen.CharSpec(t, gen.CharOpts{MaxLen: 500, MinLen: 40, MaxReq: 3})
		return c06Char{Spec: sp, Key: rapid.Uint64().Draw(t, "key")}
	}, func(c c06Char) error {
		sp := c.Spec
		if rf, b := sp.Feasibility(spg.MaxTrials, spg.MaxFailRate); rf || b {
			return &ev.Skip{Why: "refused"}
		}
		cnt := sp.CountIE()
		if cnt.Sign() <= 0 {
			return &ev.Skip{Why: "nothing valid"}
		}
		r := toRecipe(sp)
		ent := r.Entropy()
		bound := oracle.Log2Big(cnt)
		if math.IsNaN(float64(ent)) || float64(ent) > bound+4*oracle.Ulp32(bound)+1e-6 {
			return fmt.Errorf("Entropy() = %v, but the recipe allows only 2^%.4f strings (Length %d, alphabet %d)", ent, bound, sp.Length, len(sp.AlphabetSet()))
		}
		o := callRaw(&tape.Tape{TailKey: c.Key | 1, Cap: 1 << 24}, r.Generate)
		if o.Pw != nil && math.Float32bits(o.Pw.Entropy) != math.Float32bits(ent) {
			return fmt.Errorf("a returned Password carries Entropy %v, the recipe reports %v", o.Pw.Entropy, ent)
		}
		if len(sp.Required()) > 0 {
			ev.NonTrivial(fmt.Sprintf("longchar|%+v", sp))
		}
		if bound > 1024 {
			ev.Class("count_beyond_2^1024")
		}
		return nil
	})
	// the entropy of a long recipe claims 2^H equally likely outcomes; every
	// outcome the claim counts must be reachable (support check, see support_test.go)
	ev.Check(t, "c06_long_support", ev.N(24, 240), func(t *rapid.T) supWL {
		w := gen.WLSpec{Words: gen.WordList(t, gen.WordListOpts{Min: 1, Max: 4, AllCapable: true}),
			Length: rapid.IntRange(20, 100).Draw(t, "long_length"),
			Scheme: rapid.SampledFrom([]string{"one", "random", "random"}).Draw(t, "scheme"),
			Sep:    gen.SepSpec{Kind: "preset", Preset: rapid.SampledFrom([]string{"SFNone", "SFDigits1", "SFSymbols"}).Draw(t, "preset")}}
		return supWL{W: w, Key: rapid.Uint64().Draw(t, "key")}
	}, func(c supWL) error {
		r, m, err := buildWL(c.W)
		if err != nil {
			return &ev.Skip{Why: "empty"}
		}
		kept := oracle.Kept(c.W.Words)
		if want := oracle.WLEntropy(c.W.Length, kept, c.W.Scheme, m.Entropy); !oracle.Close32(r.Entropy(), want, 4, 0) {
			return fmt.Errorf("Entropy() = %v, formula gives %.5f", r.Entropy(), want)
		}
		ev.NonTrivial(fmt.Sprintf("long|%+v", c.W))
		ev.Class("long_recipe_support_checked")
		if err := wlSupport(c); err != nil {
			return fmt.Errorf("the reported entropy %v counts outcomes that never occur: %w", r.Entropy(), err)
		}
		return nil
	})
	if (ev.Thorough() || ev.Cfg.Replay != "") && ev.Cfg.Shard == 0 {
		// a list of more than 2^24 words, one of which ("4") is its own
		// title-cased form: the password made of that word alone is produced
		// whenever every word draw picks it, whatever the capitalisation coins
		// say, so its probability is at least size^-Length and the reported
		// entropy must not exceed Length*log2(size) (one shard only: the list
		// takes a few GB while it is built)
		ev.Check(t, "c06_huge_list", 1, func(t *rapid.T) c08Case {
			return c08Case{W: gen.WLSpec{Length: rapid.IntRange(2, 6).Draw(t, "len"), Scheme: rapid.SampledFrom([]string{"random", "one"}).Draw(t, "scheme")},
				Calls: 1<<24 + rapid.IntRange(1, 64).Draw(t, "beyond_2^24")}
		}, func(c c08Case) error {
			// the library itself leaves "4" alone when asked to capitalise it
			one, err := spg.NewWordList([]string{"4"})
			if err != nil {
				return err
			}
			r1 := spg.NewWLRecipe(2, one)
			r1.Capitalize = spg.CSAll
			r1.SeparatorFunc = spg.SFNone
			if pw, err := r1.Generate(); err != nil || pw.String() != "44" {
				return &ev.Skip{Why: "the word \"4\" does not survive capitalisation unchanged"}
			}
			wl, err := hugeList(c.Calls)
			if err != nil {
				return err
			}
			for _, scheme := range []string{c.W.Scheme, "random", "one"} {
				for _, L := range []int{c.W.Length, 1, 2, 7} {
					r := spg.NewWLRecipe(L, wl)
					r.Capitalize = spg.CapScheme(scheme)
					r.SeparatorFunc = spg.SFNone
					bound := float64(L) * math.Log2(float64(c.Calls+1))
					if ent := r.Entropy(); math.IsNaN(float64(ent)) || float64(ent) > bound+4*oracle.Ulp32(bound)+1e-6 {
						return fmt.Errorf("entropy overstated: list of 2^24+%d words, one of them \"4\": Length %d scheme %s: Entropy() = %v, but the password of %d times \"4\" has probability at least 2^-%.5f", c.Calls+1-(1<<24), L, scheme, ent, L, bound)
					}
				}
			}
			ev.NonTrivial(fmt.Sprintf("huge|%d|%s|%d", c.Calls, c.W.Scheme, c.W.Length))
			ev.Class("huge_list_beyond_2^24")
			return nil
		})
	}
	ev.Check(t, "c06_char", ev.N(160, 1600), func(t *rapid.T) c06Char {
		c := c02Gen(t)
		return c06Char{c.Spec, c.Key}
	}, c06RunChar)
}

package props

import (
	"fmt"
	"math"
	"math/big"

	"go.1password.io/spg"
	"pgregory.net/rapid"

	"verif/harness/internal/enum"
	"verif/harness/internal/ev"
	"verif/harness/internal/gen"
	"verif/harness/internal/oracle"
)

// Complete choice-tree enumeration of wordlist generation and the reference
// push-forward distribution (used by C04 and C06).

type wlDist struct {
	P       map[string]*big.Rat
	EntBits map[uint32]int
	Leaves  int
}

func enumWL(r *spg.WLRecipe, maxLeaves int) (*wlDist, error) {
	d := &wlDist{P: map[string]*big.Rat{}, EntBits: map[uint32]int{}}
	var out outcome
	leaves, err := enum.Enumerate(enum.Opts{MaxLeaves: maxLeaves, TailKey: 0x77}, func(s *enum.Session) {
		out = outcome{}
		s.Run(func() { out.Pw, out.Err = r.Generate() })
		out.Panic = s.Panic
	}, func(l *enum.Leaf) error {
		if out.Panic != nil {
			return fmt.Errorf("Generate panicked: %v", out.Panic)
		}
		if out.Pw == nil {
			return fmt.Errorf("Generate failed: %v", out.Err)
		}
		// an empty separator token is "no separator" for the distribution; the
		// token layout as such is C05's
		var ts []oracle.Tok
		for _, t := range toToks(out.Pw.Tokens()) {
			if !(t.T == oracle.SepT && t.V == "") {
				ts = append(ts, t)
			}
		}
		k := tokKey(ts)
		w, ok := d.P[k]
		if !ok {
			w = new(big.Rat)
			d.P[k] = w
		}
		w.Add(w, l.Weight)
		d.EntBits[math.Float32bits(out.Pw.Entropy)]++
		return nil
	})
	d.Leaves = leaves
	ev.Leaves(int64(leaves))
	if err == enum.ErrTooBig {
		// an implementation that makes more draws than the pinned one (a second
		// discarded separator call, say) has a bigger tree: not judged, not blamed
		ev.Class("tree_beyond_leaf_budget_not_judged")
		err = &ev.Skip{Why: "wordlist tree beyond the leaf budget"}
	}
	return d, err
}

// capSubsets lists the capitalised-position sets of a scheme with weights.
func capSubsets(scheme string, L int) (sets []uint32, w *big.Rat, ok bool) {
	switch scheme {
	case "none":
		return []uint32{0}, big.NewRat(1, 1), true
	case "first":
		return []uint32{1}, big.NewRat(1, 1), true
	case "all":
		return []uint32{1<<uint(L) - 1}, big.NewRat(1, 1), true
	case "one":
		for i := 0; i < L; i++ {
			sets = append(sets, 1<<uint(i))
		}
		return sets, big.NewRat(1, int64(L)), true
	case "random":
		for m := uint32(0); m < 1<<uint(L); m++ {
			sets = append(sets, m)
		}
		return sets, big.NewRat(1, int64(1)<<uint(L)), true
	}
	return nil, nil, false
}

// refWLDist is the push-forward of the uniform product of (capitalised set,
// word indices, per-gap separator values) onto token sequences.
func refWLDist(kept []string, L int, scheme string, seps []string) (map[string]*big.Rat, int, bool) {
	sets, cw, ok := capSubsets(scheme, L)
	if !ok {
		return nil, 0, false
	}
	m, ns := len(kept), len(seps)
	each := new(big.Rat).Set(cw)
	for i := 0; i < L; i++ {
		each.Mul(each, big.NewRat(1, int64(m)))
	}
	for i := 0; i < L-1; i++ {
		each.Mul(each, big.NewRat(1, int64(ns)))
	}
	out := map[string]*big.Rat{}
	combos := 0
	widx := make([]int, L)
	sidx := make([]int, L)
	for _, set := range sets {
		for i := range widx {
			widx[i] = 0
		}
		for {
			for i := range sidx {
				sidx[i] = 0
			}
			for {
				var toks []oracle.Tok
				for i := 0; i < L; i++ {
					w := kept[widx[i]]
					if set&(1<<uint(i)) != 0 {
						w = oracle.Title(w)
					}
					toks = append(toks, oracle.Tok{V: w, T: oracle.AtomT})
					if i < L-1 && seps[sidx[i]] != "" {
						toks = append(toks, oracle.Tok{V: seps[sidx[i]], T: oracle.SepT})
					}
				}
				k := tokKey(toks)
				p, ok := out[k]
				if !ok {
					p = new(big.Rat)
					out[k] = p
				}
				p.Add(p, each)
				combos++
				// next separator vector (L-1 gaps)
				j := L - 2
				for ; j >= 0; j-- {
					sidx[j]++
					if sidx[j] < ns {
						break
					}
					sidx[j] = 0
				}
				if j < 0 {
					break
				}
			}
			j := L - 1
			for ; j >= 0; j-- {
				widx[j]++
				if widx[j] < m {
					break
				}
				widx[j] = 0
			}
			if j < 0 {
				break
			}
		}
	}
	return out, combos, true
}

// treeSize predicts the number of leaves of the real tree: choices for caps,
// words, L-1 separators, and one extra separator draw when a separator
// function is set (Entropy() calls it once).
func treeSize(m, L, ns int, scheme string, funcSep bool, capL int) (int, bool) {
	sz := 1
	mul := func(k int) bool {
		if k == 0 || sz > capL/k {
			return false
		}
		sz *= k
		return true
	}
	switch scheme {
	case "one":
		if !mul(L) {
			return 0, false
		}
	case "random":
		if L > 14 || !mul(1<<uint(L)) {
			return 0, false
		}
	}
	for i := 0; i < L; i++ {
		if !mul(m) {
			return 0, false
		}
	}
	g := L - 1
	if funcSep {
		g = L
	}
	for i := 0; i < g; i++ {
		if !mul(ns) {
			return 0, false
		}
	}
	return sz, true
}

// genSmallWL draws an enumerable wordlist recipe within capL leaves.
func genSmallWL(t *rapid.T, capL int, premise bool, pool []string) gen.WLSpec {
	var w gen.WLSpec
	w.Words = gen.WordList(t, gen.WordListOpts{Min: 1, Max: 7, Premise: premise, Pool: pool})
	if pool == nil && rapid.IntRange(0, 3).Draw(t, "with_twin") == 0 {
		// a word together with its title-cased twin (normalisation must fold them)
		base := rapid.SampledFrom([]string{"polish", "été", "ice cream", "ñu", "don't", "ǆemal", "o'neil", "x_y"}).Draw(t, "twin_base")
		if len(w.Words) > 5 {
			w.Words = w.Words[:5]
		}
		w.Words = append(w.Words, base, oracle.Title(base))
		if premise && !oracle.PremiseOK(oracle.Kept(w.Words)) {
			w.Words = []string{base, oracle.Title(base)}
		}
	}
	w.Scheme = rapid.SampledFrom(gen.Schemes).Draw(t, "scheme")
	// separators without retries: constants, tiny presets, requirement-free recipes
	switch rapid.IntRange(0, 6).Draw(t, "sepkind") {
	case 0, 1:
		w.Sep = gen.SepSpec{Kind: "const", Const: rapid.SampledFrom(gen.ConstSeps).Draw(t, "sepconst")}
	case 2:
		w.Sep = gen.SepSpec{Kind: "preset", Preset: rapid.SampledFrom([]string{"SFNone", "SFDigits1", "SFSymbols", "SFDigitsNoAmbiguous1"}).Draw(t, "preset")}
	case 4:
		// a separator recipe Generate declines (too unlikely to meet its
		// requirements): it yields no separator and must not add entropy
		w.Sep = gen.SepSpec{Kind: "func", Recipe: &oracle.CharSpec{Length: 2, Allow: oracle.Letters, Require: oracle.Digits | oracle.Symbols}}
	case 3:
		// a caller-written separator function: picks uniformly among distinct
		// values and reports its true entropy or (legitimately) under-claims 0
		k := rapid.IntRange(2, 4).Draw(t, "draw_k")
		vals := []string{"-", "+", "", "·x"}[:k]
		ent := float32(0)
		if rapid.Bool().Draw(t, "draw_true_entropy") {
			ent = float32(math.Log2(float64(k)))
		}
		w.Sep = gen.SepSpec{Kind: "draw", Draw: vals, DrawEnt: ent}
	default:
		n := rapid.IntRange(1, 4).Draw(t, "sep_ab")
		ab := ""
		for i := 0; i < n; i++ {
			ab += rapid.SampledFrom([]string{"-", "+", "1", "7", "é", "·", "-"}).Draw(t, "sepch")
		}
		w.Sep = gen.SepSpec{Kind: "func", Recipe: &oracle.CharSpec{Length: rapid.IntRange(1, 2).Draw(t, "seplen"), AllowChars: ab}}
	}
	_, _, m := buildSep(w.Sep)
	m = declinedSep(w.Sep, m)
	if m.Refused {
		capL /= 20 // every gap costs a full (declined) character-recipe generation
	}
	kept := oracle.Kept(w.Words)
	maxL := 1
	for L := 2; L <= 6; L++ {
		if _, ok := treeSize(len(kept), L, len(m.Values), w.Scheme, w.Sep.Kind != "const", capL); ok {
			maxL = L
		}
	}
	w.Length = rapid.IntRange(1, maxL).Draw(t, "length")
	return w
}

// declinedSep corrects the separator model for recipes Generate declines.
func declinedSep(s gen.SepSpec, m sepModel) sepModel {
	if rf, _ := sepRefused(s); rf {
		m.Values, m.Entropy, m.Refused = []string{""}, 0, true
	}
	return m
}

func compareDist(got, want map[string]*big.Rat) error {
	for k, p := range got {
		q, ok := want[k]
		if !ok {
			return fmt.Errorf("password %q is generated (probability %v) but the recipe cannot produce it", k, p)
		}
		if p.Cmp(q) != 0 {
			return fmt.Errorf("password %q has probability %v, expected %v from independent uniform choices", k, p, q)
		}
	}
	for k, q := range want {
		if _, ok := got[k]; !ok {
			return fmt.Errorf("password %q (expected probability %v) is never generated", k, q)
		}
	}
	return nil
}

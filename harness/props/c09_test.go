package props

import (
	"crypto/rand"
	"fmt"
	"math"
	"sync"
	"sync/atomic"
	"testing"

	"go.1password.io/spg"
	"pgregory.net/rapid"

	"verif/harness/internal/enum"
	"verif/harness/internal/ev"
	"verif/harness/internal/gen"
	"verif/harness/internal/oracle"
	"verif/harness/internal/tape"
)

// C09 - randomness only from the OS source; generation fails closed.

type c09Case struct {
	Char   *oracle.CharSpec `json:"char,omitempty"`
	WL     *gen.WLSpec      `json:"wl,omitempty"`
	Script []uint32         `json:"script"`
	Key    uint64           `json:"key"`
	Chunks [][]int          `json:"chunks"`
	Extra  []int            `json:"extra_fault_points"`
}

type runRes struct {
	Key     string
	Ent     uint32
	HavePw  bool
	Err     bool
	Panic   interface{}
	Pos     int
	NReads  int
	Draws   []enum.Draw
	Cap     bool
	ErrText string
}

func c09Runner(c c09Case) (func() (*spg.Password, error), error) {
	if c.Char != nil {
		r := toRecipe(*c.Char)
		return r.Generate, nil
	}
	if c.WL.Sep.Kind == "script" {
		return nil, &ev.Skip{Why: "scripted separators carry their own state"}
	}
	r, _, err := buildWL(*c.WL)
	if err != nil {
		return nil, &ev.Skip{Why: "empty list"}
	}
	return r.Generate, nil
}

func c09Once(g func() (*spg.Password, error), tp *tape.Tape) runRes {
	o := callRaw(tp, g)
	res := runRes{Panic: o.Panic, Pos: tp.Pos, NReads: tp.NReads, Draws: o.S.Draws, Cap: o.Cap}
	if o.Pw != nil {
		res.HavePw = true
		res.Key = tokKey(toToks(o.Pw.Tokens()))
		res.Ent = math.Float32bits(o.Pw.Entropy)
	}
	if o.Err != nil {
		res.Err = true
		res.ErrText = o.Err.Error()
	}
	return res
}

func c09Run(c c09Case) error {
	g, err := c09Runner(c)
	if err != nil {
		return err
	}
	mk := func() *tape.Tape { t := tape.FromWords(c.Script, c.Key); t.Cap = 1 << 20; return t }
	base := c09Once(g, mk())
	if base.Cap {
		return &ev.Skip{Why: "cap"}
	}
	if base.Panic != nil {
		return fmt.Errorf("Generate panicked on a healthy source: %v", base.Panic)
	}
	kind := "char"
	if c.WL != nil {
		kind = "wl:" + c.WL.Sep.Kind
	}
	ev.Class("kind=" + kind)
	ev.Sample("c09", 4, c)
	// 1a. same bytes, same choices
	again := c09Once(g, mk())
	if again.Key != base.Key || again.Ent != base.Ent || again.Pos != base.Pos || again.HavePw != base.HavePw {
		return fmt.Errorf("same recipe, same source bytes, different outcome: %q (%d bytes) vs %q (%d bytes)", base.Key, base.Pos, again.Key, again.Pos)
	}
	// 1b. every announced choice among two or more alternatives is paid for
	// with a 32-bit word of the source (C01 fixes the word size). Judged on
	// the total so that an implementation that reads the words of one candidate
	// ahead of its draws is not blamed; a single alternative needs no bytes.
	need := 0
	for _, d := range base.Draws {
		if d.Bound > 1 {
			need += 4
		}
	}
	if base.Pos < need {
		return fmt.Errorf("%d choices among two or more alternatives were made but only %d bytes of the random source were consumed (%d needed): some choice did not come from it", need/4, base.Pos, need)
	}
	if base.HavePw && len(base.Draws) == 0 {
		// allowed only when nothing is random: one word, one char, no caps
		ev.Class("no_random_choice_needed")
	}
	// 1c. chunked delivery of the same bytes
	for _, ch := range c.Chunks {
		tp := mk()
		tp.Chunks = ch
		r := c09Once(g, tp)
		if (r.Panic != nil || r.Err) && !r.HavePw && base.HavePw {
			// the statement's second sentence: a read that delivers fewer bytes
			// than requested may also be treated as a failure of the source -
			// aborting is then the stated behaviour. What is excluded is going on
			// with other choices.
			ev.Class("short_read_aborts")
			continue
		}
		if r.Panic != nil {
			return fmt.Errorf("short (but successful) reads %v made Generate panic: %v", ch, r.Panic)
		}
		if r.Key != base.Key || r.Ent != base.Ent || r.Pos != base.Pos || r.HavePw != base.HavePw {
			return fmt.Errorf("source delivering the same bytes in pieces %v changed the outcome: %q (%d bytes) vs %q (%d bytes)", ch, base.Key, base.Pos, r.Key, r.Pos)
		}
	}
	// 1d. a different stream gives a different password when there is enough entropy
	if base.HavePw {
		ent := float64(math.Float32frombits(base.Ent))
		if ent >= 48 {
			t2 := tape.FromWords(nil, c.Key^0xfeedface1234)
			o2 := c09Once(g, t2)
			if o2.HavePw && o2.Key == base.Key {
				return fmt.Errorf("two unrelated source streams produced the same %.0f-bit password %q", ent, base.Key)
			}
			ev.Class("stream_sensitivity_checked")
		}
	}
	// 2. fail closed: a fault at every read position
	R := base.NReads
	if R == 0 {
		return nil
	}
	var points []int
	if R <= 64 {
		for k := 0; k < R; k++ {
			points = append(points, k)
		}
	} else {
		for k := 0; k < 16; k++ {
			points = append(points, k, R-1-k)
		}
		for _, e := range c.Extra {
			points = append(points, 16+e%(R-32))
		}
	}
	nontriv := false
	for _, k := range points {
		for deliver := 0; deliver < 4; deliver++ {
			for kindE := 0; kindE < 5; kindE++ {
				for _, persist := range []bool{true, false} {
					if kindE > 0 && deliver > 0 && !persist {
						continue // thin out combinations that add nothing
					}
					tp := mk()
					tp.Fault = &tape.Fault{AtRead: k, Deliver: deliver, Kind: kindE, Persist: persist}
					tp.MaxReads = R + 4000
					r := c09Once(g, tp)
					ev.Leaves(1)
					if r.Cap && persist {
						return fmt.Errorf("random source failed at read %d of %d and keeps failing; generation did not abort but went on reading (%d further reads)", k, R, tp.NReads-k)
					}
					if r.HavePw {
						return fmt.Errorf("random source failed at read %d of %d (delivered %d bytes, error kind %d, persistent=%v) and Generate still returned the password %q", k, R, deliver, kindE, persist, r.Key)
					}
					if r.Panic == nil && !r.Err {
						return fmt.Errorf("random source failed at read %d and Generate returned neither password nor error", k)
					}
				}
			}
		}
		if k >= 1 {
			nontriv = true
		}
	}
	ev.ClassN("fault_points", int64(len(points)))
	if nontriv {
		ev.NonTrivial(fmt.Sprintf("%+v|%+v|%v|%d", c.Char, c.WL, c.Script, c.Key))
	}
	if c.WL != nil && c.WL.Sep.Kind != "const" && R > c.WL.Length {
		ev.Class("fault_inside_functional_separator")
	}
	if c.Char != nil && len(base.Draws) > c.Char.Length {
		ev.Class("fault_inside_retry")
	}
	return nil
}

func c09Gen(t *rapid.T) c09Case {
	c := c09Case{Script: gen.Uint32s(t, "script", 6), Key: rapid.Uint64().Draw(t, "key")}
	if rapid.Bool().Draw(t, "char") {
		sp := gen.CharSpec(t, gen.CharOpts{MaxLen: 24, MaxReq: 3, Small: rapid.Bool().Draw(t, "small")})
		// keep recipes Generate accepts; low success chances give retries
		for i := 0; i < 6; i++ {
			if rf, b := sp.Feasibility(200, 1e-9); !rf && !b {
				break
			}
			if len(sp.RequireSets) > 0 {
				sp.RequireSets = sp.RequireSets[:len(sp.RequireSets)-1]
			} else {
				sp.Require &= sp.Require - 1
			}
		}
		c.Char = &sp
	} else {
		w := gen.WL(t, gen.WLOpts{List: gen.WordListOpts{Min: 1, Max: 8}, MaxLen: 14, UnknownCap: true})
		c.WL = &w
	}
	n := rapid.IntRange(1, 3).Draw(t, "nchunkplans")
	for i := 0; i < n; i++ {
		c.Chunks = append(c.Chunks, rapid.SliceOfN(rapid.IntRange(0, 4), 1, 7).Draw(t, "chunks"))
	}
	c.Extra = rapid.SliceOfN(rapid.IntRange(0, 1<<20), 0, 6).Draw(t, "extra")
	return c
}

// Accounting under concurrency: a source that hands out each 32-bit word
// exactly once. Whatever the interleaving of goroutines, the multiset of words
// chosen in all generated passwords must equal the image of the consumed
// source words under the (learned, not assumed) word-to-choice map: every
// choice comes from source bytes, and no bytes decide two choices or none.
type c09Conc struct {
	Key uint64 `json:"key"`
	G   int    `json:"goroutines"`
	L   int    `json:"length"`
	I   int    `json:"iterations"`
}

func c09ConcRun(c c09Conc) error {
	const size = 4096
	words := make([]string, size)
	for i := range words {
		words[i] = fmt.Sprintf("w%05d", i)
	}
	wl, err := spg.NewWordList(words)
	if err != nil {
		return err
	}
	T := c.G * c.L * c.I
	src := &concReader{key: c.Key}
	old := rand.Reader
	oldO := spg.VerifDrawObserver
	rand.Reader = src
	spg.VerifDrawObserver = nil
	defer func() { rand.Reader = old; spg.VerifDrawObserver = oldO }()
	// phase 1 (sequential): learn which word each source value selects
	one := spg.NewWLRecipe(1, wl)
	want := map[string]int{}
	for k := 0; k < T; k++ {
		before := atomic.LoadUint64(&src.ctr)
		p, err := one.Generate()
		if err != nil {
			return err
		}
		if atomic.LoadUint64(&src.ctr) != before+1 {
			// the accounting below identifies one source read with one word;
			// an implementation that reads differently is not judged here
			ev.Class("accounting_not_applicable_reads_differ")
			return nil
		}
		want[p.String()]++
	}
	// phase 2 (concurrent): the same T source values, consumed by G goroutines
	atomic.StoreUint64(&src.ctr, 0)
	r := spg.NewWLRecipe(c.L, wl)
	r.SeparatorChar = " "
	var mu sync.Mutex
	got := map[string]int{}
	var firstErr error
	var wg sync.WaitGroup
	for g := 0; g < c.G; g++ {
		wg.Add(1)
		go func() {
			defer wg.Done()
			defer func() {
				if rec := recover(); rec != nil {
					mu.Lock()
					firstErr = fmt.Errorf("panic under concurrency: %v", rec)
					mu.Unlock()
				}
			}()
			local := map[string]int{}
			for i := 0; i < c.I; i++ {
				p, err := r.Generate()
				if err != nil {
					mu.Lock()
					firstErr = err
					mu.Unlock()
					return
				}
				for _, a := range p.Tokens().Atoms() {
					local[a]++
				}
			}
			mu.Lock()
			for k, v := range local {
				got[k] += v
			}
			mu.Unlock()
		}()
	}
	wg.Wait()
	if firstErr != nil {
		return firstErr
	}
	if n := atomic.LoadUint64(&src.ctr); n != uint64(T) {
		return fmt.Errorf("%d goroutines generating %d words consumed %d source reads, want %d", c.G, T, n, T)
	}
	for w, n := range want {
		if got[w] != n {
			return fmt.Errorf("under concurrency the source values that select %q were consumed %d times but %q was chosen %d times: some source bytes decided two choices or none", w, n, w, got[w])
		}
	}
	for w, n := range got {
		if want[w] != n {
			return fmt.Errorf("under concurrency %q was chosen %d times, its source values were consumed %d times", w, n, want[w])
		}
	}
	ev.Leaves(int64(T))
	ev.Class("concurrent_accounting")
	ev.NonTrivial(fmt.Sprintf("conc|%d|%d|%d|%d", c.Key, c.G, c.L, c.I))
	return nil
}

func TestC09(t *testing.T) {
	ev.Fixed(t, "c09_first_call", func(do func(int) bool) { do(0) }, func(int) error {
		if ev.Cfg.Replay != "" {
			return nil // only meaningful as the first thing a process does
		}
		return firstCallCheck()
	})
	learnClasses()
	if !requireHooks(t) {
		return
	}
	ev.Check(t, "c09_source", ev.N(2400, 40000), c09Gen, c09Run)
	// a choice that never varies with the source bytes is not derived from them:
	// in long passphrases every position is sometimes capitalised and sometimes
	// not, and every word occurs at every position (the support check of C04,
	// false-alarm bound 1e-12; lengths beyond 64 words included)
	ev.Check(t, "c09_choices_vary", ev.N(16, 160), func(t *rapid.T) supWL {
		w := gen.WLSpec{Words: gen.WordList(t, gen.WordListOpts{Min: 2, Max: 4, AllCapable: true}),
			Length: rapid.IntRange(50, 140).Draw(t, "long_length"),
			Scheme: rapid.SampledFrom([]string{"one", "random"}).Draw(t, "scheme"),
			Sep:    gen.SepSpec{Kind: "const", Const: rapid.SampledFrom([]string{"", "-"}).Draw(t, "sep")}}
		return supWL{W: w, Key: rapid.Uint64().Draw(t, "key")}
	}, func(c supWL) error {
		err := wlSupport(c)
		if err == nil {
			ev.Class("choices_vary_checked")
			ev.NonTrivial(fmt.Sprintf("vary|%+v", c.W))
		}
		return err
	})
	ev.Check(t, "c09_concurrent_accounting", ev.N(32, 320), func(t *rapid.T) c09Conc {
		return c09Conc{Key: rapid.Uint64().Draw(t, "key"), G: rapid.IntRange(2, 12).Draw(t, "g"), L: rapid.IntRange(1, 5).Draw(t, "l"), I: rapid.IntRange(20, 150).Draw(t, "i")}
	}, c09ConcRun)
}

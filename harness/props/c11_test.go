package props

import (
	"fmt"
	"math"
	"strings"
	"testing"
	"unicode/utf8"

	"go.1password.io/spg"
	"pgregory.net/rapid"

	"verif/harness/internal/ev"
	"verif/harness/internal/gen"
	"verif/harness/internal/oracle"
	"verif/harness/internal/tape"
)

// C11 - token index round trip and documented size.

type c11Case struct {
	Toks    []oracle.Tok     `json:"toks,omitempty"`
	Entropy float32          `json:"entropy"`
	Char    *oracle.CharSpec `json:"char,omitempty"`
	WL      *gen.WLSpec      `json:"wl,omitempty"`
	TapeKey uint64           `json:"tape_key,omitempty"`
	Script  []uint32         `json:"script,omitempty"`
}

var c11Chars = []string{"a", "b", "Z", "0", "-", " ", "é", "ß", "λ", "正", "確", "💩", "ű", "¡", "—", "\n", "\r", "\t", "\u0301", "\u0e34", "\uFFFD", "%"}

func genTokValue(t *rapid.T) string {
	var n int
	switch rapid.IntRange(0, 9).Draw(t, "lenclass") {
	case 0:
		n = 1
	case 1:
		n = 2
	case 2:
		n = rapid.SampledFrom([]int{127, 128, 129, 254, 255}).Draw(t, "edge_len")
	case 3:
		n = rapid.IntRange(86, 255).Draw(t, "long_len")
	default:
		n = rapid.IntRange(1, 12).Draw(t, "short_len")
	}
	mode := rapid.IntRange(0, 3).Draw(t, "charmode")
	if n <= 12 && rapid.IntRange(0, 39).Draw(t, "invalid_utf8") == 0 {
		// words from a Latin-1 file, say: bytes that are not valid UTF-8 (one character each)
		var b strings.Builder
		for i := 0; i < n; i++ {
			b.WriteString(rapid.SampledFrom([]string{"a", "f", "\xe9", "\xf1", "\xff", "\xc3", "é"}).Draw(t, "latin1"))
		}
		return b.String()
	}
	var b strings.Builder
	for i := 0; i < n; i++ {
		switch {
		case mode == 0:
			b.WriteString(c11Chars[i%5])
		case mode == 1:
			b.WriteString(rapid.SampledFrom(c11Chars[6:]).Draw(t, "mb"))
		default:
			if n > 16 {
				b.WriteString(c11Chars[(i*7+n)%len(c11Chars)])
			} else {
				b.WriteString(rapid.SampledFrom(c11Chars).Draw(t, "ch"))
			}
		}
	}
	return b.String()
}

func genToks(t *rapid.T) []oracle.Tok {
	n := rapid.IntRange(1, 8).Draw(t, "ntok")
	pat := rapid.IntRange(0, 5).Draw(t, "pattern")
	out := make([]oracle.Tok, n)
	for i := range out {
		out[i].V = genTokValue(t)
		switch pat {
		case 0:
			out[i].T = oracle.AtomT
		case 1, 2:
			out[i].T = oracle.AtomT
			if i%2 == 1 {
				out[i].T = oracle.SepT
			}
		case 3:
			out[i].T = oracle.SepT
			if i%2 == 1 {
				out[i].T = oracle.AtomT
			}
		case 4:
			out[i].T = uint8(rapid.IntRange(0, 1).Draw(t, "type"))
		default:
			out[i].T = uint8(rapid.SampledFrom([]int{0, 1, 1, 0, 2, 7, 255}).Draw(t, "type_any"))
		}
	}
	if pat == 0 && rapid.Bool().Draw(t, "char_pw") {
		for i := range out {
			out[i].V = rapid.SampledFrom(c11Chars).Draw(t, "one")
		}
	}
	return out
}

// construct builds a Password with exactly these tokens through the public
// API (a full index is a constructor for any (value, type) sequence).
func construct(toks []oracle.Tok, ent float32) (spg.Password, error) {
	idx := []byte{3}
	s := ""
	for _, t := range toks {
		n := oracle.NChars(t.V)
		if n < 1 || n > 255 {
			return spg.Password{}, &ev.Skip{Why: "token length outside 1..255"}
		}
		idx = append(idx, byte(n), t.T)
		s += t.V
	}
	p, err := spg.Tokenize(s, spg.Indices(idx), ent)
	if err != nil {
		plain := utf8.ValidString(s)
		for _, t := range toks {
			if t.T != oracle.AtomT && t.T != oracle.SepT {
				plain = false
			}
		}
		_ = plain
		// Tokenize may refuse token types it does not know, text that is not
		// UTF-8, or a full index where MakeIndices would have chosen a compact
		// kind (strict decoding): the sequence is then not constructible this way
		// and is outside what c11_tokens quantifies over. (Round trips of
		// generated passwords - c11_recipe - do not depend on this constructor.)
		return p, &ev.Skip{Why: "not constructible: Tokenize refuses this full index"}
	}
	if got := toToks(p.Tokens()); tokKey(got) != tokKey(toks) {
		return p, fmt.Errorf("Tokenize with a full index built %q, want %q", got, toks)
	}
	return p, nil
}

type tokView struct {
	ts      spg.Tokens
	str     string
	Entropy float32
}

func (v *tokView) Tokens() spg.Tokens { return v.ts }
func (v *tokView) String() string     { return v.str }

// decoys are other passwords whose indices are built between MakeIndices and Tokenize.
var decoys = func() []spg.Password {
	var out []spg.Password
	for _, ts := range [][]oracle.Tok{
		{{V: "xx", T: oracle.AtomT}, {V: "-", T: oracle.SepT}, {V: "yyyy", T: oracle.AtomT}},
		{{V: "q", T: oracle.SepT}, {V: "q", T: oracle.SepT}, {V: "zzzzzzz", T: oracle.AtomT}, {V: "w", T: oracle.AtomT}, {V: "w", T: oracle.AtomT}},
		{{V: "long", T: oracle.AtomT}, {V: "er", T: oracle.AtomT}, {V: "words", T: oracle.AtomT}, {V: "here", T: oracle.AtomT}, {V: "now", T: oracle.AtomT}, {V: "ok", T: oracle.AtomT}},
	} {
		p, err := construct(ts, 1)
		if err == nil {
			out = append(out, p)
		}
	}
	return out
}()

func roundTrip(p *spg.Password, mustEncode bool) error {
	return roundTripTokens(p.Tokens(), p.String(), p.Entropy, mustEncode)
}

// roundTripTokens works on any token sequence obtainable through the public
// API (Tokens is a slice type: sequences can be appended and sliced).
func roundTripTokens(ts spg.Tokens, str string, entropy float32, mustEncode bool) error {
	p := &tokView{ts, str, entropy}
	toks := toToks(p.Tokens())
	if len(toks) == 0 {
		return &ev.Skip{Why: "empty token sequence (outside MakeIndices' domain)"}
	}
	idx, err := p.Tokens().MakeIndices()
	if err != nil {
		if mustEncode {
			return fmt.Errorf("MakeIndices failed for tokens of 1..255 characters: %v (tokens %.200q)", err, fmt.Sprint(toks))
		}
		ev.Class("encode_refused")
		return nil
	}
	// an index is a value: it must survive later MakeIndices calls on other
	// passwords (index a batch first, tokenize afterwards)
	saved := append([]byte{}, idx...)
	for _, d := range decoys {
		if _, e := d.Tokens().MakeIndices(); e != nil {
			return &ev.Inc{Why: "decoy index: " + e.Error()}
		}
	}
	if string(saved) != string(idx) {
		return fmt.Errorf("the index %v returned by MakeIndices changed to %v after MakeIndices was called for other passwords", saved, []byte(idx))
	}
	back, err := spg.Tokenize(p.String(), idx, p.Entropy)
	if err != nil {
		return fmt.Errorf("Tokenize(String(), MakeIndices()) failed: %v (index %v)", err, []byte(idx))
	}
	if got := toToks(back.Tokens()); tokKey(got) != tokKey(toks) {
		return fmt.Errorf("round trip changed tokens: got %.300q want %.300q (index %v)", fmt.Sprint(got), fmt.Sprint(toks), []byte(idx))
	}
	if math.Float32bits(back.Entropy) != math.Float32bits(p.Entropy) {
		return fmt.Errorf("round trip changed entropy %v -> %v", p.Entropy, back.Entropy)
	}
	if mustEncode {
		sizes := oracle.SizeLaw(toks)
		ok := false
		for _, s := range sizes {
			if len(idx) == s {
				ok = true
			}
		}
		if !ok {
			return fmt.Errorf("index has %d bytes, documented size %v for %d tokens (kind byte %d)", len(idx), sizes, len(toks), idx[0])
		}
		if len(sizes) == 2 {
			ev.Class("shape_not_pinned_by_doc")
		}
		ev.Class(fmt.Sprintf("kind=%d", idx[0]))
	}
	return nil
}

func c11Classify(toks []oracle.Tok) {
	mb, long := false, false
	for _, t := range toks {
		if len(t.V) != oracle.NChars(t.V) {
			mb = true
		}
		if oracle.NChars(t.V) >= 128 {
			long = true
		}
	}
	if mb {
		ev.Class("multibyte_token")
	}
	if long {
		ev.Class("token>=128_chars")
	}
	full := oracle.HasAdjacentSameType(toks) && !allAtomToks(toks)
	if full {
		ev.Class("needs_full_index")
	}
	if mb || long || full {
		ev.NonTrivial(tokKey(toks))
	}
}

func allAtomToks(ts []oracle.Tok) bool {
	for _, t := range ts {
		if t.T != oracle.AtomT {
			return false
		}
	}
	return true
}

func c11RunToks(c c11Case) error {
	p, err := construct(c.Toks, c.Entropy)
	if ev.IsSkip(err) {
		ev.Class("not_constructible_not_judged")
		return nil
	}
	if err != nil {
		return err
	}
	c11Classify(c.Toks)
	ev.Sample("c11_tokens", 3, c)
	must := true
	for _, t := range c.Toks {
		if !utf8.ValidString(t.V) {
			must = false // error or exact round trip
			ev.Class("invalid_utf8_token")
		}
	}
	return roundTrip(&p, must)
}

func c11RunRecipe(c c11Case) error {
	if c.WL != nil && len(c.Toks) > 0 {
		return c11RunConcat(c)
	}
	tp := tape.FromWords(c.Script, c.TapeKey)
	var o outcome
	mustEncode := true
	if c.Char != nil {
		r := toRecipe(*c.Char)
		o = callRaw(tp, r.Generate)
	} else {
		r, _, err := buildWL(*c.WL)
		if err != nil {
			return &ev.Skip{Why: "empty list"}
		}
		o = callRaw(tp, r.Generate)
	}
	if o.Pw == nil {
		ev.Class("not_generated")
		return nil
	}
	toks := toToks(o.Pw.Tokens())
	for _, t := range toks {
		if n := oracle.NChars(t.V); n > 255 {
			mustEncode = false
			ev.Class("token>255_chars")
		}
	}
	c11Classify(toks)
	ev.Sample("c11_recipe", 3, c)
	return roundTrip(o.Pw, mustEncode)
}

// c11RunConcat: a constructed token sequence with the tokens of a generated
// (possibly over-long) passphrase spliced in at a drawn position.
func c11RunConcat(c c11Case) error {
	a, err := construct(c.Toks, c.Entropy)
	if ev.IsSkip(err) {
		ev.Class("not_constructible_not_judged")
		return nil
	}
	if err != nil {
		return err
	}
	r, _, err := buildWL(*c.WL)
	if err != nil {
		return &ev.Skip{Why: "empty list"}
	}
	o := callRaw(tape.FromWords(c.Script, c.TapeKey), r.Generate)
	if o.Pw == nil {
		return &ev.Skip{Why: "not generated"}
	}
	at := int(c.TapeKey % uint64(len(c.Toks)+1))
	var ts spg.Tokens
	ts = append(ts, a.Tokens()[:at]...)
	ts = append(ts, o.Pw.Tokens()...)
	ts = append(ts, a.Tokens()[at:]...)
	str := ""
	must := true
	for _, t := range ts {
		str += t.Value()
		if n := oracle.NChars(t.Value()); n > 255 || n < 1 {
			must = false
		}
	}
	if !must {
		ev.Class("spliced_token>255_chars")
	}
	c11Classify(toToks(ts))
	ev.Class("spliced_sequences")
	return roundTripTokens(ts, str, c.Entropy, must)
}

var longWords = []string{strings.Repeat("x", 256), strings.Repeat("é", 255), strings.Repeat("é", 256), strings.Repeat("ab", 300), strings.Repeat("正", 128), strings.Repeat("y", 255)}

func TestC11(t *testing.T) {
	ev.Check(t, "c11_tokens", ev.N(80000, 1200000), func(t *rapid.T) c11Case {
		return c11Case{Toks: genToks(t), Entropy: rapid.Float32().Draw(t, "entropy")}
	}, c11RunToks)
	ev.Check(t, "c11_recipe", ev.N(48000, 600000), func(t *rapid.T) c11Case {
		c := c11Case{TapeKey: rapid.Uint64().Draw(t, "tape"), Script: gen.Uint32s(t, "script", 6)}
		switch rapid.IntRange(0, 3).Draw(t, "kind") {
		case 0:
			s := gen.CharSpec(t, gen.CharOpts{MaxLen: 40, MaxReq: 2})
			c.Char = &s
		case 1:
			w := gen.WL(t, gen.WLOpts{List: gen.WordListOpts{Min: 1, Max: 8}, MaxLen: 6, UnknownCap: true, AllowScript: true})
			n := rapid.IntRange(1, 2).Draw(t, "nlong")
			for i := 0; i < n; i++ {
				w.Words = append(w.Words, rapid.SampledFrom(longWords).Draw(t, "longword"))
			}
			c.WL = &w
			if rapid.Bool().Draw(t, "splice") {
				c.Toks = genToks(t)
				c.Entropy = 3
			}
		default:
			w := gen.WL(t, gen.WLOpts{List: gen.WordListOpts{Min: 1, Max: 8}, MaxLen: 8, UnknownCap: true})
			c.WL = &w
		}
		return c
	}, c11RunRecipe)
}

package props

import (
	"crypto/rand"
	"encoding/json"
	"fmt"
	"go.1password.io/spg"
	"math"
	"os"
	"path/filepath"
	"reflect"
	"runtime"
	"sync"
	"sync/atomic"
	"testing"

	"pgregory.net/rapid"

	"verif/harness/internal/ev"
	"verif/harness/internal/gen"
	"verif/harness/internal/oracle"
)

// C14 - recipes, word lists and separator functions are safe to share across goroutines.
// Built with -race by the driver (GORACE=halt_on_error=1): a race report kills
// the worker, and the driver turns the report plus the workload file written
// before each run into the violation.

type c14Op struct {
	Target string `json:"t"` // c: shared CharRecipe, w: shared WLRecipe, l: its WordList, s: separator function, p: package-level preset
	Method string `json:"m"`
	Reps   int    `json:"n"`
}

// concReader is a goroutine-safe random source written in Go (every Read
// takes the next value of an atomic counter through a mixing function). With
// the OS source the bytes are written by a system call the race detector does
// not see; with this reader a buffer shared between goroutines becomes visible
// to it.
type concReader struct {
	ctr uint64
	key uint64
}

func (r *concReader) Read(p []byte) (int, error) {
	for i := 0; i < len(p); i += 8 {
		w := ev.Mix64(r.key, atomic.AddUint64(&r.ctr, 1))
		for j := i; j < i+8 && j < len(p); j++ {
			p[j] = byte(w >> (8 * uint(j-i)))
		}
	}
	return len(p), nil
}

type c14Case struct {
	Char   oracle.CharSpec `json:"char"`
	WL     gen.WLSpec      `json:"wl"`
	Preset string          `json:"preset"`
	Procs  int             `json:"procs"`
	GoSrc  uint64          `json:"go_source,omitempty"` // != 0: use the Go-implemented source with this key
	G      [][]c14Op       `json:"goroutines"`
}

func c14Run(c c14Case) error {
	if w := os.Getenv("VERIF_WORK"); w != "" {
		b, _ := json.Marshal(c)
		_ = os.WriteFile(filepath.Join(w, fmt.Sprintf("workload-%d.json", ev.Cfg.Shard)), b, 0o644)
	}
	spareCap = 4
	defer func() { spareCap = 0 }()
	if c.GoSrc != 0 {
		oldR := rand.Reader
		rand.Reader = &concReader{key: c.GoSrc}
		defer func() { rand.Reader = oldR }()
		ev.Class("go_implemented_source")
	}
	old := runtime.GOMAXPROCS(c.Procs)
	defer runtime.GOMAXPROCS(old)
	cr := toRecipe(c.Char)
	crSnap := toRecipe(c.Char)
	wr, m, err := buildWL(c.WL)
	if err != nil {
		return &ev.Skip{Why: "empty list"}
	}
	if c.WL.Sep.Kind == "script" {
		return &ev.Skip{Why: "scripted separators are caller state"}
	}
	if rf, b := sepRefused(c.WL.Sep); rf || b {
		m.Refused = true
	}
	wlSnap := *wr
	preset := presetByName[c.Preset]
	// reference values are computed AFTER the concurrent phase and on separate
	// copies, so that lazily initialised state is first touched concurrently
	var charEnt, wlEnt, sp float32
	var alpha string
	var size uint32
	type obs struct {
		what string
		bits uint32
		str  string
	}
	var seen []obs
	var presetVals []string
	var mu sync.Mutex
	var firstErr error
	fail := func(e error) {
		mu.Lock()
		if firstErr == nil {
			firstErr = e
		}
		mu.Unlock()
	}
	record := func(what string, bits uint32, str string) {
		mu.Lock()
		seen = append(seen, obs{what, bits, str})
		mu.Unlock()
	}
	var charPws []*spg.Password
	var wg sync.WaitGroup
	start := make(chan struct{})
	setBuilders := 0
	for gi, ops := range c.G {
		for _, op := range ops {
			if op.Target == "c" || (op.Target == "w" && op.Method == "Generate" && c.WL.Sep.Kind != "const") || op.Target == "p" || op.Target == "s" {
				setBuilders++
				break
			}
		}
		wg.Add(1)
		go func(gi int, ops []c14Op) {
			defer wg.Done()
			defer func() {
				if r := recover(); r != nil {
					fail(fmt.Errorf("goroutine %d panicked: %v", gi, r))
				}
			}()
			<-start
			for _, op := range ops {
				for rep := 0; rep < op.Reps; rep++ {
					switch op.Target + ":" + op.Method {
					case "c:Generate":
						p, err := cr.Generate()
						if err == nil {
							mu.Lock()
							charPws = append(charPws, p) // judged after the concurrent phase
							mu.Unlock()
							record("c:PasswordEntropy", math.Float32bits(p.Entropy), "")
						}
					case "c:Entropy":
						record("c:Entropy", math.Float32bits(cr.Entropy()), "")
					case "c:Alphabet":
						record("c:Alphabet", 0, cr.Alphabet())
					case "c:SuccessProbability":
						record("c:SuccessProbability", math.Float32bits(cr.SuccessProbability()), "")
					case "w:Generate":
						p, err := wr.Generate()
						if err != nil {
							if c.WL.Length >= 1 {
								fail(fmt.Errorf("concurrent wordlist Generate failed: %v", err))
							}
							continue
						}
						if e := checkWLStructure(c.WL, m, p); e != nil {
							fail(fmt.Errorf("under concurrency: %w", e))
						}
						record("w:PasswordEntropy", math.Float32bits(p.Entropy), "")
					case "w:Entropy":
						record("w:Entropy", math.Float32bits(wr.Entropy()), "")
					case "w:Size", "l:Size":
						record("w:Size", wr.Size(), "")
					case "s:Call":
						if wr.SeparatorFunc != nil {
							wr.SeparatorFunc()
						}
					case "p:Call":
						v, _ := preset()
						mu.Lock()
						presetVals = append(presetVals, v) // judged after the concurrent phase
						mu.Unlock()
					}
				}
			}
		}(gi, ops)
	}
	close(start)
	wg.Wait()
	if firstErr != nil {
		return firstErr
	}
	// references from separate, freshly built copies (class contents are
	// learned from the library only now: its first use was concurrent)
	learnClassesOnce()
	for _, p := range charPws {
		if e := checkCharPassword(c.Char, p); e != nil {
			return fmt.Errorf("under concurrency: %w", e)
		}
	}
	pmodel := map[string]bool{"": c.Preset == "SFNone"}
	if s, ok := presetSpec[c.Preset]; ok {
		vs, _ := s.ValidStrings(1 << 12)
		for _, v := range vs {
			pmodel[v] = true
		}
	}
	for _, v := range presetVals {
		if !pmodel[v] {
			return fmt.Errorf("preset %s returned %q under concurrency", c.Preset, v)
		}
	}
	refC := toRecipe(c.Char)
	charEnt, alpha, sp = refC.Entropy(), refC.Alphabet(), refC.SuccessProbability()
	refW, _, _ := buildWL(c.WL)
	wlEnt, size = refW.Entropy(), refW.Size()
	for _, o := range seen {
		var want uint32
		switch o.what {
		case "c:PasswordEntropy", "c:Entropy":
			want = math.Float32bits(charEnt)
		case "c:SuccessProbability":
			want = math.Float32bits(sp)
		case "w:PasswordEntropy", "w:Entropy":
			want = math.Float32bits(wlEnt)
		case "w:Size":
			want = size
		case "c:Alphabet":
			if o.str != alpha {
				return fmt.Errorf("concurrent Alphabet() = %q, a fresh copy alone gives %q", o.str, alpha)
			}
			continue
		}
		if o.bits != want {
			return fmt.Errorf("under concurrency %s = %v, a fresh copy alone gives %v", o.what, math.Float32frombits(o.bits), math.Float32frombits(want))
		}
	}
	// the caller-visible fields only: what an implementation keeps in private
	// fields (guarded derived data, say) is its own business
	if cr.Length != crSnap.Length || cr.Allow != crSnap.Allow || cr.Require != crSnap.Require || cr.Exclude != crSnap.Exclude ||
		cr.AllowChars != crSnap.AllowChars || cr.ExcludeChars != crSnap.ExcludeChars || !reflect.DeepEqual(cr.RequireSets, crSnap.RequireSets) {
		return fmt.Errorf("shared CharRecipe changed: %+v -> %+v", crSnap, cr)
	}
	if wr.Length != wlSnap.Length || wr.Capitalize != wlSnap.Capitalize || wr.SeparatorChar != wlSnap.SeparatorChar {
		return fmt.Errorf("shared WLRecipe changed")
	}
	ev.Class(fmt.Sprintf("goroutines=%d", len(c.G)))
	ev.Class(fmt.Sprintf("procs=%d", c.Procs))
	if setBuilders >= 2 {
		ev.NonTrivial(fmt.Sprintf("%+v", c))
	}
	ev.Sample("c14", 2, c)
	return nil
}

var c14Methods = map[string][]string{"c": {"Generate", "Entropy", "Alphabet", "SuccessProbability"}, "w": {"Generate", "Entropy", "Size"}, "l": {"Size"}, "s": {"Call"}, "p": {"Call"}}

func c14Base(t *rapid.T) c14Case {
	sp := gen.CharSpec(t, gen.CharOpts{MaxLen: 10, MaxReq: 2, Small: rapid.Bool().Draw(t, "small"), NoHiBits: true})
	relax := 6
	if rapid.IntRange(0, 3).Draw(t, "keep_declined") == 0 {
		relax = 0 // a recipe Generate declines: the error path is shared code too
	}
	for i := 0; i < relax; i++ {
		if rf, b := sp.Feasibility(200, 1e-9); !rf && !b {
			break
		}
		if len(sp.RequireSets) > 0 {
			sp.RequireSets = sp.RequireSets[:len(sp.RequireSets)-1]
		} else {
			sp.Require &= sp.Require - 1
		}
	}
	w := gen.WL(t, gen.WLOpts{List: gen.WordListOpts{Min: 1, Max: 6}, MaxLen: 5})
	if w.Sep.Kind == "const" && rapid.Bool().Draw(t, "use_preset") {
		w.Sep = gen.SepSpec{Kind: "preset", Preset: rapid.SampledFrom(gen.Presets).Draw(t, "wpreset")}
	}
	var gs uint64
	if rapid.Bool().Draw(t, "go_source") {
		gs = rapid.Uint64Range(1, 1<<62).Draw(t, "go_source_key")
	}
	return c14Case{GoSrc: gs, Char: sp, WL: w, Preset: rapid.SampledFrom(gen.Presets).Draw(t, "preset"), Procs: rapid.SampledFrom([]int{2, 4, 16}).Draw(t, "procs")}
}

func c14Gen(t *rapid.T) c14Case {
	c := c14Base(t)
	ng := rapid.IntRange(2, 16).Draw(t, "ng")
	for g := 0; g < ng; g++ {
		var ops []c14Op
		for i := rapid.IntRange(1, 4).Draw(t, "nops"); i > 0; i-- {
			tg := rapid.SampledFrom([]string{"c", "c", "w", "w", "l", "s", "p"}).Draw(t, "target")
			ops = append(ops, c14Op{tg, rapid.SampledFrom(c14Methods[tg]).Draw(t, "method"), rapid.IntRange(1, 4).Draw(t, "reps")})
		}
		c.G = append(c.G, ops)
	}
	return c
}

// systematic part: every unordered pair of operations on every kind of shared value
func c14Pairs() [][2]c14Op {
	var all []c14Op
	for _, tg := range []string{"c", "w", "l", "s", "p"} {
		for _, m := range c14Methods[tg] {
			all = append(all, c14Op{tg, m, 6})
		}
	}
	var out [][2]c14Op
	for i := range all {
		for j := i; j < len(all); j++ {
			out = append(out, [2]c14Op{all[i], all[j]})
		}
	}
	return out
}

var c14PairCtr int

func TestC14(t *testing.T) {
	layoutLenient = true
	pairs := c14Pairs()
	ev.Check(t, "c14_pairs", ev.N(6*len(pairs), 60*len(pairs)), func(t *rapid.T) c14Case {
		c := c14Base(t)
		// systematic: the pairs are taken in turn (each shard starts where the
		// previous one ends), so that every pair gets the same number of cases
		p := pairs[(c14PairCtr+ev.Cfg.Shard*ev.N(6*len(pairs), 60*len(pairs)))%len(pairs)]
		c14PairCtr++
		c.G = [][]c14Op{{p[0]}, {p[1]}, {p[0]}, {p[1]}}
		ev.Class("pair:" + p[0].Target + "." + p[0].Method + "|" + p[1].Target + "." + p[1].Method)
		return c
	}, c14Run)
	ev.Check(t, "c14_workload", ev.N(3200, 48000), c14Gen, c14Run)
}

package props

import (
	"bytes"
	"fmt"
	"io"
	"os"
	"regexp"
	"sort"
	"strings"
	"syscall"
	"testing"
	"unicode"

	"go.1password.io/spg"
	"pgregory.net/rapid"

	"verif/harness/internal/ev"
	"verif/harness/internal/gen"
	"verif/harness/internal/oracle"
	"verif/harness/internal/tape"
)

// C18 - generated secrets leave the library only through the returned Password.

var capFile *os.File

// recentFrags holds whole passwords returned by the last few calls in this process.
var recentFrags []string

// capture runs f with file descriptors 1 and 2 redirected to a file; this also
// catches the log package and the println builtin.
func capture(f func()) []byte {
	if capFile == nil {
		var err error
		capFile, err = os.CreateTemp(os.Getenv("VERIF_WORK"), "capture-*")
		if err != nil {
			panic(err)
		}
		os.Remove(capFile.Name())
	}
	capFile.Truncate(0)
	capFile.Seek(0, 0)
	os.Stdout.Sync()
	old1, _ := syscall.Dup(1)
	old2, _ := syscall.Dup(2)
	syscall.Dup2(int(capFile.Fd()), 1)
	syscall.Dup2(int(capFile.Fd()), 2)
	func() {
		defer func() {
			syscall.Dup2(old1, 1)
			syscall.Dup2(old2, 2)
			syscall.Close(old1)
			syscall.Close(old2)
		}()
		f()
	}()
	capFile.Seek(0, 0)
	b, _ := io.ReadAll(capFile)
	return b
}

var (
	reStamp = regexp.MustCompile(`(?m)^\d{4}/\d{2}/\d{2} \d{2}:\d{2}:\d{2}(\.\d+)? `)
	reNum   = regexp.MustCompile(`0[xX][0-9a-fA-F]+|[-+]?(\d+\.?\d*|\.\d+)([eE][-+]?\d+)?|NaN|[-+]?Inf`)
	// counts spelled out, and units behind a number
	reWord = regexp.MustCompile(`(?i)\b(no|none|zero|one|two|three|four|five|six|seven|eight|nine|ten|eleven|twelve|thirteen|fourteen|fifteen|sixteen|seventeen|eighteen|nineteen|twenty|thirty|forty|fifty|sixty|seventy|eighty|ninety|hundred|thousand|million|once|twice)\b`)
	reUnit = regexp.MustCompile(`#(ns|µs|us|ms|s|m|h|B|kB|KiB|MB|MiB|%)\b`)
)

func normaliseDiag(b []byte) string {
	s := reStamp.ReplaceAllString(string(b), "")
	s = reNum.ReplaceAllString(s, "#")
	s = reWord.ReplaceAllString(s, "#")
	for i := 0; i < 3; i++ {
		s = reUnit.ReplaceAllString(s, "#")
	}
	return s
}

// diagInterference compares two normalised captures line by line as
// multisets. Lines that one capture has more of are candidates; a pair of
// such lines, one from each side, that is the same message with different
// text (half or more of their words in common, in order, at least one of them
// a real word) is interference.
func diagInterference(na, nb string) (string, string, bool) {
	count := func(s string) map[string]int {
		m := map[string]int{}
		for _, l := range strings.Split(s, "\n") {
			if l = strings.TrimSpace(l); l != "" {
				m[l]++
			}
		}
		return m
	}
	ca, cb := count(na), count(nb)
	var onlyA, onlyB []string
	for l, n := range ca {
		if n > cb[l] && cb[l] == 0 {
			onlyA = append(onlyA, l)
		}
	}
	for l, n := range cb {
		if n > ca[l] && ca[l] == 0 {
			onlyB = append(onlyB, l)
		}
	}
	sort.Strings(onlyA)
	sort.Strings(onlyB)
	for _, x := range onlyA {
		for _, y := range onlyB {
			if similarLines(x, y) {
				return x, y, true
			}
		}
	}
	return "", "", false
}

func similarLines(x, y string) bool {
	fx, fy := strings.Fields(x), strings.Fields(y)
	if len(fx) == 0 || len(fy) == 0 {
		return false
	}
	// longest common subsequence of words
	l := make([][]int, len(fx)+1)
	for i := range l {
		l[i] = make([]int, len(fy)+1)
	}
	word := false
	for i := 1; i <= len(fx); i++ {
		for j := 1; j <= len(fy); j++ {
			if fx[i-1] == fy[j-1] {
				l[i][j] = l[i-1][j-1] + 1
				if strings.IndexFunc(fx[i-1], unicode.IsLetter) >= 0 {
					word = true
				}
			} else if l[i-1][j] > l[i][j-1] {
				l[i][j] = l[i-1][j]
			} else {
				l[i][j] = l[i][j-1]
			}
		}
	}
	m := len(fx)
	if len(fy) < m {
		m = len(fy)
	}
	if word && 2*l[len(fx)][len(fy)] >= m {
		return true
	}
	// or a long common beginning (a message whose payload is not set off by spaces)
	rx, ry := []rune(x), []rune(y)
	k := 0
	for k < len(rx) && k < len(ry) && rx[k] == ry[k] {
		k++
	}
	return k >= 8
}

// secretFragments lists what must not show up in diagnostics.
func secretFragments(pw *spg.Password, isChar bool) []string {
	var out []string
	s := pw.String()
	if isChar {
		cs := oracle.Chars(s)
		if len(cs) >= 6 {
			for i := 0; i+6 <= len(cs); i++ {
				out = append(out, strings.Join(cs[i:i+6], ""))
			}
		}
		return out
	}
	if oracle.NChars(s) >= 6 {
		out = append(out, s)
	}
	for _, a := range pw.Tokens().Atoms() {
		if oracle.NChars(a) >= 3 {
			out = append(out, a)
		}
	}
	for _, sp := range pw.Tokens().Separators() {
		if oracle.NChars(sp) >= 2 {
			out = append(out, sp)
		}
	}
	return out
}

type c18Case struct {
	Char    *oracle.CharSpec `json:"char,omitempty"`
	WL      *gen.WLSpec      `json:"wl,omitempty"`
	Key1    uint64           `json:"key1"`
	Key2    uint64           `json:"key2"`
	AllFail bool             `json:"all_fail"`
}

// words and characters for this check avoid everything that occurs in the
// library's fixed diagnostic texts
var c18Words = []string{"zanzibar", "quokka", "Quokka", "quokka", "fjord", "Fjord", "xylem", "正確", "馬", "vivid", "juju", "jazzy", "ñandú", "kiwi kiwi", "Zebu", "mmm", "qqq", strings.Repeat("zqxj", 76)}
var c18Chars = []string{"Q", "J", "K", "Z", "X", "V", "W", "q", "j", "z", "@", "_", "é", "ß", "λ", "正", "Ω", "Ж", " ", "\t"}

func c18Run(c c18Case) error {
	var diagSeen, rejected bool
	// which of the (up to eight) streams of this case is running: forced constant
	// choices differ per stream
	streamIdx := 0
	constChoice := func(n uint32) uint32 {
		if n == 0 {
			return 0
		}
		return []uint32{0, n - 1, n / 2, 1, n / 3, 2 * (n / 3), n / 4, 3 * (n / 4)}[streamIdx] % n
	}
	type one struct {
		capt  string
		fault string
		pw    *spg.Password
		frags []string
		draws int
	}
	run := func(key uint64) (one, error) {
		var o outcome
		var capt, faultCapt []byte
		isChar := c.Char != nil
		var extra []string
		if isChar {
			r := toRecipe(*c.Char)
			if c.AllFail {
				// a stream of candidates made only of the first alphabet character (plus key-dependent ones)
				capt = capture(func() {
					o = callForced(nil, func(k int, n uint32) uint32 {
						if c.Key1%4 == 1 {
							// every draw the same index: candidates of one repeated character
							return constChoice(n)
						}
						if c.Char.Length > 0 && k%c.Char.Length == 0 {
							return 0
						}
						return uint32(ev.Mix64(key, uint64(k)) % uint64(n))
					}, key, r.Generate)
				})
				// reconstruct the candidates by the reference model (sorted alphabet index)
				ab := c.Char.Alphabet()
				L := c.Char.Length
				if L >= 6 && len(ab) > 0 {
					for i := 0; i+L <= len(o.S.Draws) && i < 40*L; i += L {
						cand := ""
						for j := 0; j < L; j++ {
							d := o.S.Draws[i+j]
							if int(d.Bound) == len(ab) {
								cand += ab[d.Choice]
							}
						}
						cs := oracle.Chars(cand)
						for w := 0; w+6 <= len(cs); w += 3 {
							extra = append(extra, strings.Join(cs[w:w+6], ""))
						}
					}
				}
			} else {
				capt = capture(func() { o = callRaw(&tape.Tape{TailKey: key | 1, Cap: 1 << 20}, r.Generate) })
			}
			// the other entry points that print diagnostics
			c2 := capture(func() {
				defer func() { recover() }()
				r.Entropy()
				r.SuccessProbability()
				r.Alphabet()
			})
			capt = append(capt, c2...)
			if len(o.S.Draws) > c.Char.Length && c.Char.Length > 0 {
				rejected = true
			}
		} else {
			var r *spg.WLRecipe
			var err error
			c0 := capture(func() { r, _, err = buildWL(*c.WL) })
			if err != nil {
				return one{}, &ev.Skip{Why: "empty list"}
			}
			for _, w := range oracle.Kept(c.WL.Words) {
				if oracle.NChars(w) >= 3 {
					extra = append(extra, w) // list words are secrets-in-waiting too
				}
			}
			if c.AllFail {
				// constant index choices: separator recipes with a requirement then
				// reject every candidate (run 1: index 0 everywhere, run 2: last index)
				capt = capture(func() {
					o = callForced(nil, func(k int, n uint32) uint32 { return constChoice(n) }, key, r.Generate)
				})
				if c.WL.Sep.Kind == "func" {
					ab := c.WL.Sep.Recipe.Alphabet()
					if len(ab) > 0 && c.WL.Sep.Recipe.Length >= 2 {
						ch := ab[constChoice(uint32(len(ab)))]
						extra = append(extra, strings.Repeat(ch, c.WL.Sep.Recipe.Length)) // the rejected separator candidate
					}
				}
			} else {
				capt = capture(func() { o = callRaw(&tape.Tape{TailKey: key | 1, Cap: 1 << 20}, r.Generate) })
			}
			capt = append(c0, capt...)
			c2 := capture(func() {
				defer func() { recover() }()
				r.Entropy()
			})
			capt = append(capt, c2...)
			if c.Key1%3 == 0 && c.WL.Length >= 2 { // same decision and fault position for both streams
				// the source fails after some words have been drawn: whatever is
				// written then must not name them
				c3 := capture(func() {
					tp := &tape.Tape{TailKey: key | 1, Cap: 1 << 20, Fault: &tape.Fault{AtRead: 1 + int(c.Key1>>8)%(2*c.WL.Length), Persist: c.Key1&16 != 0}}
					callRaw(tp, r.Generate) // panic or error is the expected outcome (C09)
				})
				// judged by the direct oracle only: how many diagnostics precede the
				// fault legitimately depends on the stream (a redrawn word shifts the
				// fault to an earlier choice)
				faultCapt = c3
			}
		}
		if o.Panic != nil {
			return one{}, &ev.Skip{Why: "panic (judged by C13)"}
		}
		res := one{capt: string(capt), fault: string(faultCapt), pw: o.Pw, draws: len(o.S.Draws)}
		if o.Pw != nil {
			res.frags = secretFragments(o.Pw, isChar)
		}
		res.frags = append(res.frags, extra...)
		if len(capt) > 0 {
			diagSeen = true
		}
		return res, nil
	}
	streamIdx = 0
	a, err := run(c.Key1)
	if err != nil {
		return err
	}
	streamIdx = 1
	b, err := run(c.Key2)
	if err != nil {
		return err
	}
	// secrets of earlier calls must not surface in later diagnostics either
	for _, r := range []one{a, b} {
		plain := reStamp.ReplaceAllString(r.capt, "")
		for _, f := range recentFrags {
			if len(f) >= 6 && strings.Contains(plain, f) {
				return fmt.Errorf("a fragment %q of a password returned by an EARLIER call appears in later diagnostic output %q", f, trunc(plain, 300))
			}
		}
	}
	for _, r := range []one{a, b} {
		if r.pw != nil {
			if s := r.pw.String(); oracle.NChars(s) >= 6 {
				recentFrags = append(recentFrags, s)
			}
		}
	}
	if len(recentFrags) > 16 {
		recentFrags = recentFrags[len(recentFrags)-16:]
	}
	runs := []one{a, b}
	for i, r := range runs {
		plain := reStamp.ReplaceAllString(r.capt+r.fault, "")
		other := runs[1-i]
		otherPlain := reStamp.ReplaceAllString(other.capt+other.fault, "")
		otherFrags := map[string]bool{}
		for _, f := range other.frags {
			otherFrags[f] = true
		}
		for _, f := range r.frags {
			if strings.TrimSpace(f) == "" || !strings.Contains(plain, f) {
				continue // (runs of blanks also occur in aligned output)
			}
			if strings.Contains(otherPlain, f) && !otherFrags[f] {
				// the same text is printed under a stream whose secrets do not
				// contain it: fixed diagnostic text, not a leak
				ev.Class("coincidence_with_fixed_text")
				continue
			}
			return fmt.Errorf("secret fragment %q appears in the library's diagnostic output %q", f, trunc(plain, 300))
		}
	}
	// non-interference: diagnostics may differ between streams only in numbers
	// (whether a count-only message appears at all may depend on the stream -
	// "N candidates were rejected" - so a message present under one stream only
	// is not blamed; the same message with different text is)
	na, nb := normaliseDiag([]byte(a.capt)), normaliseDiag([]byte(b.capt))
	if na != nb {
		if x, y, bad := diagInterference(na, nb); bad {
			// The same message in two wordings. A count can legitimately change
			// the wording ("1 candidate was" / "# candidates were", a unit), but
			// only between a few fixed forms (numbers, spelled-out counts and
			// units are normalised away first); text taken from the secrets changes
			// with every stream. Six more streams: five or more wordings of this
			// message among the eight is interference.
			forms := map[string]bool{x: true, y: true}
			for i := 2; i < 8; i++ {
				streamIdx = i
				more, err := run(ev.Mix64(c.Key1^c.Key2, uint64(i)))
				if err != nil {
					break
				}
				for _, l := range strings.Split(normaliseDiag([]byte(more.capt)), "\n") {
					if l = strings.TrimSpace(l); l != "" && (similarLines(l, x) || similarLines(l, y)) {
						forms[l] = true
					}
				}
			}
			if len(forms) < 5 {
				ev.Class("diagnostic_wording_depends_on_stream_few_forms")
				goto niDone
			}
			return fmt.Errorf("diagnostic output depends on the random stream beyond counts and probabilities: stream 1 wrote %q where stream 2 wrote %q\n stream 1: %q\n stream 2: %q", x, y, trunc(na, 400), trunc(nb, 400))
		}
		ev.Class("diagnostic_presence_depends_on_stream")
	}
niDone:
	if diagSeen {
		ev.Class("diagnostic_output_seen")
	}
	if rejected {
		ev.Class("rejected_candidates")
	}
	if c.AllFail {
		ev.Class("forced_stream")
	}
	if diagSeen || rejected {
		ev.NonTrivial(fmt.Sprintf("%+v|%+v|%v", c.Char, c.WL, c.AllFail))
	}
	ev.Sample("c18", 4, c)
	_ = bytes.MinRead
	return nil
}

// onlyFrom keeps the sets whose characters all come from pool.
func onlyFrom(sets []string, pool []string) []string {
	ok := map[string]bool{}
	for _, p := range pool {
		ok[p] = true
	}
	var out []string
	for _, set := range sets {
		good := true
		for _, ch := range oracle.Chars(set) {
			if !ok[ch] {
				good = false
			}
		}
		if good {
			out = append(out, set)
		}
	}
	return out
}

func trunc(s string, n int) string {
	if len(s) > n {
		return s[:n] + "..."
	}
	return s
}

func c18Gen(t *rapid.T) c18Case {
	c := c18Case{Key1: rapid.Uint64().Draw(t, "k1"), Key2: rapid.Uint64().Draw(t, "k2")}
	if c.Key1 == c.Key2 {
		c.Key2 ^= 0x9999
	}
	if rapid.Bool().Draw(t, "char") {
		sp := gen.CharSpec(t, gen.CharOpts{MaxLen: 20, MaxReq: 3, Small: rapid.Bool().Draw(t, "small"), Pool: c18Chars, NoHiBits: true})
		switch rapid.IntRange(0, 9).Draw(t, "degenerate") {
		case 0:
			sp.Allow, sp.AllowChars, sp.Require, sp.RequireSets = 0, "", 0, nil
		case 1:
			sp.Length = 0
		}
		// digits are left out of this check's alphabets: numbers in diagnostics
		// legitimately vary with the stream and could coincide with digit windows
		nodigits := ^(oracle.Digits | oracle.Ambiguous)
		sp.Allow &= nodigits
		sp.Require &= nodigits
		var keep []string
		for _, set := range sp.RequireSets {
			if !strings.ContainsAny(set, "0123456789") {
				keep = append(keep, set)
			}
		}
		sp.RequireSets = keep
		c.Char = &sp
		c.AllFail = rapid.IntRange(0, 3).Draw(t, "allfail") == 0
	} else {
		w := gen.WL(t, gen.WLOpts{List: gen.WordListOpts{Min: 1, Max: 8, Pool: c18Words}, MaxLen: 6, UnknownCap: true})
		// separators from alphabets that cannot coincide with diagnostic text or numbers
		switch rapid.IntRange(0, 4).Draw(t, "c18sep") {
		case 0:
			w.Sep = gen.SepSpec{Kind: "const", Const: rapid.SampledFrom([]string{"", "--", "¡", "—·", "::"}).Draw(t, "c18const")}
		case 1:
			w.Sep = gen.SepSpec{Kind: "preset", Preset: rapid.SampledFrom([]string{"SFNone", "SFSymbols"}).Draw(t, "c18preset")}
		case 2:
			w.Sep = gen.SepSpec{Kind: "draw", Draw: []string{"QJ", "ZXV", "λΩ", "KWK"}, DrawEnt: 1, VaryEnt: rapid.Bool().Draw(t, "vary_ent")}
		default:
			r := gen.CharSpec(t, gen.CharOpts{MaxLen: 3, MaxReq: 1, Small: true, Pool: c18Chars, NoHiBits: true})
			r.Allow, r.Require, r.Exclude = 0, 0, 0
			r.RequireSets = onlyFrom(r.RequireSets, c18Chars) // no class strings: short separators must not collide with diagnostic text
			if r.AllowChars == "" {
				r.AllowChars = "QJ"
			}
			w.Sep = gen.SepSpec{Kind: "func", Recipe: &r}
		}
		c.WL = &w
		c.AllFail = rapid.IntRange(0, 2).Draw(t, "wl_forced") == 0
	}
	return c
}

func TestC18(t *testing.T) {
	if !requireHooks(t) {
		return
	}
	ev.Check(t, "c18_no_leak", ev.N(32000, 400000), c18Gen, c18Run)
}

package props

import (
	"fmt"
	"math"
	"testing"

	"go.1password.io/spg"
	"pgregory.net/rapid"

	"verif/harness/internal/ev"
	"verif/harness/internal/gen"
	"verif/harness/internal/oracle"
	"verif/harness/internal/tape"
)

// C04 - wordlist choices uniform and independent.

type c04Case struct {
	W gen.WLSpec `json:"w"`
}

func c04Run(c c04Case) error {
	w := c.W
	kept := oracle.Kept(w.Words)
	if !oracle.PremiseOK(kept) {
		ev.Class("premise_failed_skipped")
		return &ev.Skip{Why: "title-casing premise does not hold"}
	}
	r, m, err := buildWL(w)
	if err != nil {
		return &ev.Skip{Why: "empty list"}
	}
	m = declinedSep(w.Sep, m)
	capL := ev.Pick(20000, 200000)
	if _, ok := treeSize(len(kept), w.Length, len(m.Values), w.Scheme, w.Sep.Kind != "const", capL); !ok {
		return &ev.Skip{Why: "tree too large"}
	}
	want, _, ok := refWLDist(kept, w.Length, w.Scheme, m.Values)
	if !ok {
		return &ev.Skip{Why: "scheme not defined by the statement"}
	}
	// a generation over the same list that dies half-way (the source fails),
	// recovered by the caller, must leave nothing behind for later generations
	{
		dying := *r // a copy of the recipe value: same list, same separator function
		dying.Length = w.Length + 2
		dying.Capitalize = spg.CSAll
		callRaw(&tape.Tape{TailKey: 0x4441, Fault: &tape.Fault{AtRead: 1 + len(kept)%3, Persist: true}}, dying.Generate)
	}
	got, err := enumWL(r, capL+10)
	if err != nil {
		return err
	}
	pow2 := len(kept)&(len(kept)-1) == 0
	ev.Class("scheme=" + w.Scheme)
	ev.Class("sep=" + w.Sep.Kind)
	if !pow2 {
		ev.Class("list_size_not_power_of_two")
	}
	if (!pow2 && w.Length >= 2) || w.Scheme == "one" || w.Scheme == "random" || (w.Sep.Kind != "const" && len(m.Values) > 1 && w.Length >= 3) {
		ev.NonTrivial(fmt.Sprintf("%v|%d|%s|%+v", kept, w.Length, w.Scheme, w.Sep))
	}
	ev.Sample("c04", 4, c)
	if err := compareDist(got.P, want); err != nil {
		return err
	}
	if oracle.AllCapitalisable(kept) {
		// consequence stated by the property: all passwords equally likely
		var first string
		for k, p := range got.P {
			if first == "" {
				first = k
			} else if p.Cmp(got.P[first]) != 0 {
				return fmt.Errorf("every word is capitalisable but %q has probability %v and %q has %v", k, p, first, got.P[first])
			}
		}
		ev.Class("all_capitalisable_uniform_checked")
	}
	return nil
}

// shipped lists: Length 1 enumerated completely; Length 2 at forced corners.
type c04Shipped struct {
	List string `json:"list"`
	Lo   int    `json:"lo"`
	Hi   int    `json:"hi"`
}

func c04ShippedRun(c c04Shipped) error {
	words := spg.AgileWords
	if c.List == "syllables" {
		words = spg.AgileSyllables
	}
	wl, err := spg.NewWordList(words)
	if err != nil {
		return err
	}
	kept := oracle.Kept(words)
	n := int(wl.Size())
	if n != len(kept) {
		return fmt.Errorf("shipped list %s: Size() = %d, want %d", c.List, n, len(kept))
	}
	// every word of the list, and nothing else, comes out of one-word
	// passwords (read without assuming how the word is drawn: pseudo-random
	// streams until every word has been seen with overwhelming probability;
	// that every word is equally likely is the frequency and tree checks' part)
	got, err := readKept(wl)
	if err != nil {
		return err
	}
	if len(got) != len(kept) {
		return fmt.Errorf("shipped list %s: one-word passwords yield %d distinct words, the list has %d", c.List, len(got), len(kept))
	}
	for i := range kept {
		if got[i] != kept[i] {
			return fmt.Errorf("shipped list %s: one-word passwords yield %q, the list has %q at that place (sorted)", c.List, got[i], kept[i])
		}
	}
	// Length 2: corners
	r2 := spg.NewWLRecipe(2, wl)
	for _, ch := range [][]uint32{{0, 0}, {0, uint32(n - 1)}, {uint32(n - 1), 0}, {uint32(n - 1), uint32(n - 1)}} {
		o := callForced(ch, nil, 3, r2.Generate)
		if o.Pw == nil || len(o.Pw.Tokens().Atoms()) != 2 {
			return fmt.Errorf("two-word password at indices %v failed", ch)
		}
	}
	return nil
}

// bernstein returns the deviation t with P(|X - Np| >= t) <= 2e-15 for X ~ Bin(N, p).
func bernstein(N int, p float64) float64 {
	v := float64(N) * p * (1 - p)
	return (23 + math.Sqrt(529+276*v)) / 2
}

func c04FreqRun(c supWL) error {
	w := c.W
	kept := oracle.Kept(w.Words)
	if !oracle.PremiseOK(kept) || !oracle.AllCapitalisable(kept) || len(kept) < 2 {
		return &ev.Skip{Why: "premise"}
	}
	r, _, err := buildWL(w)
	if err != nil {
		return &ev.Skip{Why: "empty"}
	}
	L, m, N := w.Length, len(kept), 4000
	idx := map[string]int{}
	for i, k := range kept {
		idx[k] = i
		idx[oracle.Title(k)] = i
	}
	capCnt := make([]int, L)
	wordCnt := make([][]int, L)
	for i := range wordCnt {
		wordCnt[i] = make([]int, m)
	}
	for it := 0; it < N; it++ {
		o := callRaw(&tape.Tape{TailKey: ev.Mix64(c.Key, uint64(it)) | 1, Cap: 1 << 22}, r.Generate)
		if o.Panic != nil || o.Pw == nil {
			return fmt.Errorf("Generate failed: %v %v", o.Panic, o.Err)
		}
		atoms := o.Pw.Tokens().Atoms()
		if len(atoms) != L {
			return &ev.Skip{Why: "token layout not as documented (C05)"}
		}
		for p, a := range atoms {
			i, known := idx[a]
			if !known {
				return &ev.Skip{Why: "token layout not as documented (C05)"}
			}
			wordCnt[p][i]++
			if a != kept[i] {
				capCnt[p]++
			}
		}
	}
	ev.Leaves(int64(N * L))
	pc := 0.5
	if w.Scheme == "one" {
		pc = 1 / float64(L)
	}
	for p := 0; p < L; p++ {
		if d := math.Abs(float64(capCnt[p]) - float64(N)*pc); d > bernstein(N, pc) {
			return fmt.Errorf("scheme %s, Length %d: position %d was capitalised in %d of %d generations from pseudo-random streams, expected %.0f (deviation %.0f, bound %.0f)", w.Scheme, L, p, capCnt[p], N, float64(N)*pc, d, bernstein(N, pc))
		}
		for i := 0; i < m; i++ {
			pw := 1 / float64(m)
			if d := math.Abs(float64(wordCnt[p][i]) - float64(N)*pw); d > bernstein(N, pw) {
				return fmt.Errorf("Length %d: word %q appeared at position %d in %d of %d generations from pseudo-random streams, expected %.0f (deviation %.0f, bound %.0f)", L, kept[i], p, wordCnt[p][i], N, float64(N)*pw, d, bernstein(N, pw))
			}
		}
	}
	ev.Class("raw_frequencies_scheme=" + w.Scheme)
	ev.NonTrivial(fmt.Sprintf("freq|%+v", w))
	return nil
}

func TestC04(t *testing.T) {
	if !requireHooks(t) {
		return
	}
	ev.Check(t, "c04_tree", ev.N(400, 4000), func(t *rapid.T) c04Case {
		return c04Case{genSmallWL(t, ev.Pick(20000, 200000), true, nil)}
	}, c04Run)
	// recipes far beyond enumeration (Length up to 160): support check
	ev.Check(t, "c04_long_support", ev.N(32, 320), func(t *rapid.T) supWL {
		w := gen.WLSpec{Words: gen.WordList(t, gen.WordListOpts{Min: 1, Max: 5, AllCapable: true}),
			Length: rapid.IntRange(40, 160).Draw(t, "long_length"),
			Scheme: rapid.SampledFrom([]string{"one", "random", "random", "all", "none"}).Draw(t, "scheme")}
		switch rapid.IntRange(0, 2).Draw(t, "sep") {
		case 0:
			w.Sep = gen.SepSpec{Kind: "const", Const: "-"}
		case 1:
			w.Sep = gen.SepSpec{Kind: "preset", Preset: "SFDigits1"}
		default:
			w.Sep = gen.SepSpec{Kind: "draw", Draw: []string{"-", "+", "·x"}, DrawEnt: 0}
		}
		return supWL{W: w, Key: rapid.Uint64().Draw(t, "key")}
	}, func(c supWL) error {
		ev.Class("long_support_scheme=" + c.W.Scheme)
		ev.NonTrivial(fmt.Sprintf("long|%+v", c.W))
		ev.Sample("c04_long_support", 2, c)
		return wlSupport(c)
	})
	// raw pseudo-random streams (no forcing, so this also speaks when an
	// implementation draws outside the announced bounded draw and the tree
	// enumeration stops as inconclusive): per position, the frequency of each
	// word, of "capitalised" under scheme random and of "the capitalised one"
	// under scheme one, within a Bernstein bound of false-alarm probability
	// 2e-15 per count
	ev.Check(t, "c04_raw_frequencies", ev.N(16, 160), func(t *rapid.T) supWL {
		w := gen.WLSpec{Words: gen.WordList(t, gen.WordListOpts{Min: 2, Max: 4, AllCapable: true}),
			Length: rapid.IntRange(20, 100).Draw(t, "long_length"),
			Scheme: rapid.SampledFrom([]string{"one", "random", "random"}).Draw(t, "scheme"),
			Sep:    gen.SepSpec{Kind: "const", Const: rapid.SampledFrom([]string{"", "-"}).Draw(t, "sep")}}
		return supWL{W: w, Key: rapid.Uint64().Draw(t, "key")}
	}, c04FreqRun)
	ev.Fixed(t, "c04_shipped", func(do func(c04Shipped) bool) {
		// one list per shard
		for i, l := range []string{"words", "syllables"} {
			if ev.Cfg.Shard == i%ev.Cfg.NShards {
				do(c04Shipped{l, 0, 1 << 30})
			}
		}
	}, c04ShippedRun)
}

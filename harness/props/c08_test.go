package props

import (
	"crypto/rand"
	"fmt"
	"math"
	"sync"
	"testing"

	"go.1password.io/spg"
	"pgregory.net/rapid"

	"verif/harness/internal/ev"
	"verif/harness/internal/gen"
	"verif/harness/internal/oracle"
)

// C08 - wordlist entropy is exact and a function of the recipe alone.

type c08Case struct {
	W     gen.WLSpec `json:"w"`
	Perms [][]int    `json:"perms"` // constructions: index lists into W.Words
	Calls int        `json:"calls"`
}

func sepRefused(s gen.SepSpec) (refused, borderline bool) {
	if s.Kind == "func" {
		return s.Recipe.Feasibility(spg.MaxTrials, spg.MaxFailRate)
	}
	return false, false
}

var c08Documented = map[string]bool{"none": true, "first": true, "all": true, "random": true, "one": true}

func c08Run(c c08Case) error {
	// separator functions generate while Entropy() runs: give them a source
	// that is a function of the case, so that every run is reproducible
	oldR := rand.Reader
	rand.Reader = &concReader{key: ev.HashString(fmt.Sprintf("%+v", c.W)) | 1}
	defer func() { rand.Reader = oldR }()
	judged := c08Documented[c.W.Scheme]
	if !judged {
		// what an undocumented scheme string means is not specified: only the
		// stability of the value is checked for it
		ev.Class("undocumented_scheme_formula_not_judged")
	}
	if _, b := sepRefused(c.W.Sep); b {
		return &ev.Skip{Why: "separator recipe within 1% of the refusal threshold"}
	}
	kept := oracle.Kept(c.W.Words)
	twin := false
	set := map[string]bool{}
	for _, w := range c.W.Words {
		set[w] = true
	}
	for w := range set {
		if t := oracle.Title(w); t != w && set[t] {
			twin = true
		}
	}
	capable := oracle.AllCapitalisable(kept)
	if twin {
		ev.Class("has_twin_pair")
	}
	if capable {
		ev.Class("all_capitalisable")
	}
	ev.Class("scheme=" + c.W.Scheme)
	ev.Class("sep=" + c.W.Sep.Kind)
	if twin && capable && (c.W.Scheme == "one" || c.W.Scheme == "random") {
		ev.NonTrivial(fmt.Sprintf("%v|%d|%s|%+v", kept, c.W.Length, c.W.Scheme, c.W.Sep))
	}
	ev.Sample("c08", 4, c)
	var first uint32
	have := false
	var want float64
	for ci, perm := range c.Perms {
		words := make([]string, len(perm))
		for i, j := range perm {
			words[i] = c.W.Words[j%len(c.W.Words)]
		}
		w := c.W
		w.Words = words
		r, m, err := buildWL(w)
		if err != nil {
			return fmt.Errorf("NewWordList failed on non-empty input: %v", err)
		}
		if m.Refused {
			ev.Class("sep_refused")
		}
		if rf, _ := sepRefused(c.W.Sep); rf && !m.Refused {
			// refused for low success probability: separator yields "" with entropy 0
			m.Entropy = 0
		}
		want = oracle.WLEntropy(c.W.Length, kept, c.W.Scheme, m.Entropy)
		for k := 0; k < c.Calls; k++ {
			got := r.Entropy()
			if judged && !oracle.Close32(got, want, 4, 0) {
				return fmt.Errorf("construction %d call %d: Entropy() = %v, want %.6f (kept=%d words, allCapitalisable=%v)", ci, k, got, want, len(kept), capable)
			}
			if !have {
				first, have = math.Float32bits(got), true
			} else if math.Float32bits(got) != first {
				return fmt.Errorf("construction %d call %d: Entropy() = %v differs from earlier value %v for the same words", ci, k, got, math.Float32frombits(first))
			}
		}
	}
	// first Entropy() calls on a freshly built list made from several goroutines at once
	if wl, err := spg.NewWordList(append([]string{}, c.W.Words...)); err == nil && (c.W.Scheme == "random" || c.W.Scheme == "one") {
		r := spg.NewWLRecipe(c.W.Length, wl)
		r.Capitalize = spg.CapScheme(c.W.Scheme)
		want := oracle.WLEntropy(c.W.Length, kept, c.W.Scheme, 0)
		var wg sync.WaitGroup
		res := make([]float32, 6)
		start := make(chan struct{})
		for g := range res {
			wg.Add(1)
			go func(g int) {
				defer wg.Done()
				<-start
				res[g] = r.Entropy()
			}(g)
		}
		close(start)
		wg.Wait()
		for _, got := range res {
			if judged && !oracle.Close32(got, want, 4, 0) {
				return fmt.Errorf("first Entropy() calls made concurrently on a fresh list: got %v, want %.6f", got, want)
			}
		}
		ev.Class("concurrent_first_calls")
	}
	// one list object shared by several recipes evaluated in turn: the value
	// depends on the recipe alone, not on which recipe asked before
	if wl, err := spg.NewWordList(append([]string{}, c.W.Words...)); err == nil {
		for round := 0; round < 2; round++ {
			for _, scheme := range []string{"random", "none", "one", "all", "random"} {
				for _, L := range []int{c.W.Length, 1 + (c.W.Length+round)%7} {
					r := spg.NewWLRecipe(L, wl)
					r.Capitalize = spg.CapScheme(scheme)
					want := oracle.WLEntropy(L, kept, scheme, 0)
					if got := r.Entropy(); !oracle.Close32(got, want, 4, 0) {
						return fmt.Errorf("recipes sharing one word list: Length %d scheme %s: Entropy() = %v, want %.6f", L, scheme, got, want)
					}
				}
			}
		}
	}
	return nil
}

func c08Gen(K int) func(t *rapid.T) c08Case {
	return func(t *rapid.T) c08Case {
		var w gen.WLSpec
		if rapid.IntRange(0, 2).Draw(t, "twin_biased") == 0 {
			// one twin pair plus capitalisable words: the shape whose answer
			// depended on map order
			base := rapid.SampledFrom([]string{"polish", "paris", "alpha", "été", "a", "ice cream"}).Draw(t, "twin")
			words := []string{base, oracle.Title(base)}
			n := rapid.IntRange(0, 5).Draw(t, "n_more")
			for i := 0; i < n; i++ {
				words = append(words, rapid.SampledFrom(gen.LowerPool).Draw(t, "w"))
			}
			if rapid.Bool().Draw(t, "plus_uncapitalisable") {
				// as many twin pairs as genuinely uncapitalisable words
				words = append(words, rapid.SampledFrom([]string{"4", "42", "正確", "NASA", "Zulu"}).Draw(t, "uncap"))
			}
			w = gen.WLSpec{Words: words, Length: rapid.IntRange(1, 12).Draw(t, "len"), Scheme: gen.Scheme(t, true), Sep: gen.Sep(t, false, true)}
		} else {
			w = gen.WL(t, gen.WLOpts{List: gen.WordListOpts{Min: 1, Max: 10}, MaxLen: 12, AllowScript: true, UnknownCap: true})
		}
		c := c08Case{W: w, Calls: 3}
		for i := 0; i < K; i++ {
			c.Perms = append(c.Perms, gen.Perm(t, len(w.Words), "perm"))
		}
		return c
	}
}

func TestC08(t *testing.T) {
	ev.Check(t, "c08_entropy", ev.N(8000, 60000), c08Gen(ev.Pick(24, 100)), c08Run)
	// big lists: every word counts, wherever map iteration happens to put it
	ev.Check(t, "c08_big_lists", ev.N(32, 320), func(t *rapid.T) c08Case {
		return c08Case{W: gen.WLSpec{Length: rapid.IntRange(2, 6).Draw(t, "len"), Scheme: rapid.SampledFrom([]string{"random", "one"}).Draw(t, "scheme"),
			Sep: gen.SepSpec{Kind: "const", Const: ""}}, Calls: rapid.IntRange(1016, 1100).Draw(t, "size")}
	}, func(c c08Case) error {
		n := c.Calls
		words := make([]string, 0, n+1)
		for i := 0; i < n; i++ {
			words = append(words, fmt.Sprintf("w%04d", i))
		}
		words = append(words, "4") // the only word that does not change under title-casing
		kept := oracle.Kept(words)
		want := oracle.WLEntropy(c.W.Length, kept, c.W.Scheme, 0)
		for k := 0; k < 600; k++ {
			// rotate the input: the same word set every time
			rot := append(append([]string{}, words[k*7%len(words):]...), words[:k*7%len(words)]...)
			wl, err := spg.NewWordList(rot)
			if err != nil {
				return err
			}
			r := spg.NewWLRecipe(c.W.Length, wl)
			r.Capitalize = spg.CapScheme(c.W.Scheme)
			if got := r.Entropy(); !oracle.Close32(got, want, 4, 0) {
				return fmt.Errorf("list of %d words (one of them \"4\"), construction %d: Entropy() = %v, want %.5f", len(words), k, got, want)
			}
		}
		ev.NonTrivial(fmt.Sprintf("big|%d|%s|%d", n, c.W.Scheme, c.W.Length))
		ev.Class("big_list_constructions")
		return nil
	})
	if (ev.Thorough() || ev.Cfg.Replay != "") && ev.Cfg.Shard == 0 {
		// a list of more than 2^24 words, one of which does not change under
		// title-casing: list sizes and counts beyond what a float32 carries
		// exactly (one shard only: the list takes a few GB while it is built)
		ev.Check(t, "c08_huge_list", 1, func(t *rapid.T) c08Case {
			return c08Case{W: gen.WLSpec{Length: rapid.IntRange(2, 6).Draw(t, "len"), Scheme: rapid.SampledFrom([]string{"random", "one"}).Draw(t, "scheme"),
				Sep: gen.SepSpec{Kind: "const", Const: ""}}, Calls: 1<<24 + rapid.IntRange(1, 64).Draw(t, "beyond_2^24")}
		}, c08Huge)
	}
	// shipped lists: entropy of the documented example recipes
	ev.Check(t, "c08_shipped", ev.N(16, 64), func(t *rapid.T) c08Case {
		return c08Case{W: gen.WLSpec{Words: nil, Length: rapid.IntRange(1, 12).Draw(t, "len"), Scheme: gen.Scheme(t, false), Sep: gen.Sep(t, false, false)}, Calls: rapid.IntRange(0, 1).Draw(t, "which")}
	}, func(c c08Case) error {
		list := spg.AgileWords
		if c.Calls == 1 {
			list = spg.AgileSyllables
		}
		c.W.Words = list
		c.Calls = 2
		c.Perms = [][]int{nil}
		idx := make([]int, len(list))
		for i := range idx {
			idx[i] = i
		}
		c.Perms[0] = idx
		return c08Run(c)
	})
}

// c08Huge builds c.Calls distinct 7-character words plus the word "4" and
// compares Entropy() of every documented scheme with Length*log2(size): no
// capitalisation bonus, because "4" is its own title-cased form.
func c08Huge(c c08Case) error {
	n := c.Calls
	wl, err := hugeList(n)
	if err != nil {
		return err
	}
	size := float64(n + 1)
	for _, scheme := range []string{c.W.Scheme, "random", "one", "none", "all", "first"} {
		for _, L := range []int{c.W.Length, 1, 2, 7} {
			r := spg.NewWLRecipe(L, wl)
			r.Capitalize = spg.CapScheme(scheme)
			r.SeparatorFunc = spg.SFNone
			want := float64(L) * math.Log2(size)
			for k := 0; k < 2; k++ {
				if got := r.Entropy(); !oracle.Close32(got, want, 4, 0) {
					return fmt.Errorf("list of 2^24+%d words, one of them \"4\": Length %d scheme %s: Entropy() = %v, want %.5f (no capitalisation bonus)", n+1-(1<<24), L, scheme, got, want)
				}
			}
		}
	}
	ev.NonTrivial(fmt.Sprintf("huge|%d|%s|%d", n, c.W.Scheme, c.W.Length))
	ev.Class("huge_list_beyond_2^24")
	return nil
}

// hugeList builds a list of n distinct 7-character words plus the word "4"
// (which is its own title-cased form), placed in the middle of the input.
func hugeList(n int) (*spg.WordList, error) {
	const hex = "0123456789abcdef"
	buf := make([]byte, 7*n)
	for i := 0; i < n; i++ {
		buf[7*i] = 'w'
		for k, v := 0, i; k < 6; k, v = k+1, v>>4 {
			buf[7*i+6-k] = hex[v&15]
		}
		if i>>24 != 0 {
			buf[7*i] = 'x' // 2^24 and beyond: "x" + the low six digits
		}
	}
	big := string(buf)
	buf = nil
	words := make([]string, 0, n+1)
	for i := 0; i < n/2; i++ {
		words = append(words, big[7*i:7*i+7])
	}
	words = append(words, "4")
	for i := n / 2; i < n; i++ {
		words = append(words, big[7*i:7*i+7])
	}
	wl, err := spg.NewWordList(words)
	if err != nil {
		return nil, fmt.Errorf("NewWordList failed on %d distinct words: %v", n+1, err)
	}
	return wl, nil
}

package props

import (
	"fmt"
	"math"
	"math/big"

	"go.1password.io/spg"

	"verif/harness/internal/enum"
	"verif/harness/internal/ev"
)

// Attempt enumeration for character recipes (DESIGN 2.4, revised in 9.7).
//
// A character recipe with requirements retries whole candidates. Nothing
// here assumes how many draws an attempt makes, that every attempt makes the
// same number, or how draws map to characters. Two exported knobs of the
// package (MaxTrials, MaxFailRate) are used instead:
//
//   - with the budget set to ONE attempt, a call to Generate is exactly one
//     attempt: it returns the candidate (accepted) or an error (rejected). The
//     complete tree of index choices of that call is the distribution of one
//     attempt, whatever its shape;
//   - likewise, with the budget set to k+1 attempts and the choices of k
//     rejected attempts forced first, what follows is exactly the (k+1)-th
//     attempt, and its distribution can be enumerated and judged like the
//     first one's (attemptBehind): "retrying does not favour any valid string".

// singleAttempt runs f with the retry budget set to one attempt.
func singleAttempt(f func()) {
	oT, oR := spg.MaxTrials, spg.MaxFailRate
	spg.MaxTrials, spg.MaxFailRate = 1, 1
	defer func() { spg.MaxTrials, spg.MaxFailRate = oT, oR }()
	f()
}

// attemptForced is one single-attempt call under forced choices.
func attemptForced(choices []uint32, cont func(k int, n uint32) uint32, key uint64, g func() (*spg.Password, error)) (o outcome) {
	singleAttempt(func() { o = callForced(choices, cont, key, g) })
	return o
}

func choicesOf(s *enum.Session) []uint32 {
	v := make([]uint32, len(s.Draws))
	for j, d := range s.Draws {
		v[j] = d.Choice
	}
	return v
}

type refLeaf struct {
	D       int      // number of draws of THIS accepted attempt
	Choices []uint32 // its choices
	Out     string
}

// cyc serves the reference attempt's choices cyclically from draw `from` on.
func (r *refLeaf) cyc(from int) func(k int, n uint32) uint32 {
	return func(k int, n uint32) uint32 {
		j := (k - from) % r.D
		if j < 0 {
			j += r.D
		}
		return r.Choices[j]
	}
}

// findRef finds, by forcing pseudo-random choices on single attempts, an
// accepted attempt.
func findRef(r spg.CharRecipe, key uint64, tries int) (*refLeaf, error) {
	for i := 0; i < tries; i++ {
		k := ev.Mix64(key, uint64(i))
		o := attemptForced(nil, func(j int, n uint32) uint32 { return uint32(ev.Mix64(k, uint64(j)) % uint64(n)) }, k, r.Generate)
		if o.Panic != nil {
			return nil, fmt.Errorf("Generate panicked: %v", o.Panic)
		}
		if e := o.S.IndexLevelOK(); e != nil {
			return nil, &ev.Inc{Why: e.Error()}
		}
		if o.Pw == nil {
			continue
		}
		if len(o.S.Draws) == 0 {
			return nil, &ev.Skip{Why: "generation makes no random choice"}
		}
		ch := choicesOf(o.S)
		// the attempt must be reproducible from its choices alone
		oo := attemptForced(ch, nil, k^0x77, r.Generate)
		if oo.Pw == nil || oo.Pw.String() != o.Pw.String() || len(oo.S.Draws) != len(ch) {
			return nil, &ev.Inc{Why: "an attempt is not a function of its index choices"}
		}
		return &refLeaf{D: len(ch), Choices: ch, Out: o.Pw.String()}, nil
	}
	return nil, &ev.Skip{Why: "no successful attempt found by forcing"}
}

// findRejectedAttempt looks for a rejected attempt the same way.
func findRejectedAttempt(r spg.CharRecipe, key uint64, tries int) ([]uint32, error) {
	for i := 0; i < tries; i++ {
		k := ev.Mix64(key^0xabcdef, uint64(i))
		o := attemptForced(nil, func(j int, n uint32) uint32 { return uint32(ev.Mix64(k, uint64(j)) % uint64(n)) }, k, r.Generate)
		if o.Panic != nil {
			return nil, fmt.Errorf("Generate panicked: %v", o.Panic)
		}
		if e := o.S.IndexLevelOK(); e != nil {
			return nil, &ev.Inc{Why: e.Error()}
		}
		if o.Pw == nil && o.Err != nil && len(o.S.Draws) > 0 {
			return choicesOf(o.S), nil
		}
	}
	return nil, nil
}

type cellLeaf struct {
	Vec []uint32
	Out string
	Acc bool
}

type cellResult struct {
	Ref       *refLeaf
	Accepted  map[string]*big.Rat
	NAccepted int
	NRejected int
	AccW      *big.Rat
	RejW      *big.Rat
	Rejected  [][]uint32 // some rejected attempts' choices
	EntBits   map[uint32]int
	Leaves    int
}

// enumCell enumerates the complete tree of one attempt.
func enumCell(r spg.CharRecipe, ref *refLeaf, maxLeaves int) (*cellResult, error) {
	res := &cellResult{Ref: ref, Accepted: map[string]*big.Rat{}, AccW: new(big.Rat), RejW: new(big.Rat), EntBits: map[uint32]int{}}
	var out outcome
	leaves, err := enum.Enumerate(enum.Opts{MaxLeaves: maxLeaves, TailKey: 0x51}, func(s *enum.Session) {
		out = outcome{}
		singleAttempt(func() { s.Run(func() { out.Pw, out.Err = r.Generate() }) })
		out.Panic, out.S = s.Panic, s
	}, func(l *enum.Leaf) error {
		if out.Panic != nil {
			return fmt.Errorf("Generate panicked: %v", out.Panic)
		}
		lf := cellLeaf{Vec: choicesOf(l.S)}
		switch {
		case out.Pw != nil:
			s := out.Pw.String()
			w, ok := res.Accepted[s]
			if !ok {
				w = new(big.Rat)
				res.Accepted[s] = w
			}
			w.Add(w, l.Weight)
			res.AccW.Add(res.AccW, l.Weight)
			res.NAccepted++
			res.EntBits[math.Float32bits(out.Pw.Entropy)]++
			lf.Out, lf.Acc = s, true
		case out.Err != nil:
			res.RejW.Add(res.RejW, l.Weight)
			res.NRejected++
			if len(lf.Vec) > 0 && len(res.Rejected) < 16 {
				res.Rejected = append(res.Rejected, lf.Vec)
			}
		default:
			return fmt.Errorf("Generate returned neither a password nor an error")
		}
		return nil
	})
	res.Leaves = leaves
	ev.Leaves(int64(leaves))
	if err == enum.ErrTooBig {
		ev.Class("tree_beyond_leaf_budget_not_judged")
		err = &ev.Skip{Why: "attempt tree beyond the leaf budget"}
	}
	return res, err
}

// attemptBehind enumerates the (k+1)-th attempt as such: the choices of k
// rejected attempts are forced first and the budget is set to k+1 attempts, so
// that whatever Generate does behind them is exactly one more attempt - a
// password (accepted) or an error (rejected). Nothing is assumed about how that
// attempt maps draws to characters, nor that it does so like the first one:
// "retrying after a candidate that misses a requirement does not favour any
// valid string" is judged on the distribution of this attempt (the caller
// compares it with the reference set, like the first attempt's).
func attemptBehind(r spg.CharRecipe, rejected [][]uint32, maxLeaves int) (*cellResult, error) {
	oT, oR := spg.MaxTrials, spg.MaxFailRate
	defer func() { spg.MaxTrials, spg.MaxFailRate = oT, oR }()
	var prefix []uint32
	for _, v := range rejected {
		prefix = append(prefix, v...)
	}
	k := len(rejected)
	// the prefix really is k failed attempts in a row: with a budget of k,
	// an error after exactly its draws
	spg.MaxTrials, spg.MaxFailRate = k, 1
	o := callForced(prefix, nil, 0x53, r.Generate)
	if o.Panic != nil {
		return nil, fmt.Errorf("Generate panicked: %v", o.Panic)
	}
	if e := o.S.IndexLevelOK(); e != nil {
		return nil, &ev.Inc{Why: e.Error()}
	}
	if o.Pw != nil || o.Err == nil || len(o.S.Draws) != len(prefix) {
		ev.Class("rejected_attempts_do_not_chain_not_judged")
		return nil, &ev.Skip{Why: "single-attempt rejections are not failed attempts in a row for this implementation"}
	}
	spg.MaxTrials = k + 1
	res := &cellResult{Accepted: map[string]*big.Rat{}, AccW: new(big.Rat), RejW: new(big.Rat), EntBits: map[uint32]int{}}
	var out outcome
	leaves, err := enum.Enumerate(enum.Opts{Prefix: prefix, MaxLeaves: maxLeaves, TailKey: 0x54}, func(s *enum.Session) {
		out = outcome{}
		s.Run(func() { out.Pw, out.Err = r.Generate() })
		out.Panic = s.Panic
	}, func(l *enum.Leaf) error {
		switch {
		case out.Panic != nil:
			return fmt.Errorf("Generate panicked: %v", out.Panic)
		case out.Pw != nil:
			s := out.Pw.String()
			w, ok := res.Accepted[s]
			if !ok {
				w = new(big.Rat)
				res.Accepted[s] = w
			}
			w.Add(w, l.Weight)
			res.AccW.Add(res.AccW, l.Weight)
			res.NAccepted++
		case out.Err != nil:
			res.RejW.Add(res.RejW, l.Weight)
			res.NRejected++
		default:
			return fmt.Errorf("Generate returned neither a password nor an error")
		}
		return nil
	})
	res.Leaves = leaves
	ev.Leaves(int64(leaves))
	if err == enum.ErrTooBig {
		ev.Class("tree_beyond_leaf_budget_not_judged")
		err = &ev.Skip{Why: "attempt tree beyond the leaf budget"}
	}
	return res, err
}

// budgetCheck: MaxTrials rejected attempts in a row give an error after
// exactly their draws, and one fewer followed by an accepted attempt gives that
// attempt's password.
func budgetCheck(r spg.CharRecipe, ref *refLeaf, rejected [][]uint32) error {
	if len(rejected) == 0 {
		return nil
	}
	var all []uint32
	lastStart := 0
	for i := 0; i < spg.MaxTrials; i++ {
		lastStart = len(all)
		all = append(all, rejected[i%len(rejected)]...)
	}
	o := callForced(all, ref.cyc(len(all)), 9, r.Generate)
	if o.Panic != nil {
		return fmt.Errorf("panic when every attempt fails: %v", o.Panic)
	}
	if e := o.S.IndexLevelOK(); e != nil {
		return &ev.Inc{Why: e.Error()}
	}
	if o.Pw != nil || o.Err == nil {
		return fmt.Errorf("after %d rejected attempts Generate returned a password (%d draws; %d permitted attempts take %d)", spg.MaxTrials, len(o.S.Draws), spg.MaxTrials, len(all))
	}
	if len(o.S.Draws) != len(all) {
		return fmt.Errorf("with every attempt failing Generate made %d draws; the %d permitted attempts take %d", len(o.S.Draws), spg.MaxTrials, len(all))
	}
	// the last permitted attempt is really used
	ch := append(append([]uint32{}, all[:lastStart]...), ref.Choices...)
	o = callForced(ch, ref.cyc(len(ch)), 9, r.Generate)
	if o.Panic != nil {
		return fmt.Errorf("panic on the last permitted attempt: %v", o.Panic)
	}
	// (which string those choices give on the last attempt is the
	// implementation's business - attempts need not map draws alike)
	if o.Pw == nil || len(o.S.Draws) != len(ch) {
		return fmt.Errorf("%d attempts are permitted; after %d rejected ones the choices of an accepted attempt (%q on a fresh start) did not yield a password after exactly their draws (password %v, err=%v, %d draws, %d expected)", spg.MaxTrials, spg.MaxTrials-1, ref.Out, o.Pw, o.Err, len(o.S.Draws), len(ch))
	}
	return nil
}

package props

import (
	"fmt"
	"math"
	"math/big"

	"go.1password.io/spg"

	"verif/harness/internal/enum"
	"verif/harness/internal/ev"
)

// Candidate-cell enumeration for character recipes (DESIGN 2.4).
//
// A character recipe with requirements retries whole candidates. The engine
// enumerates one candidate cell at a time: every vector of index choices for
// the D draws of one candidate, behind a fixed prefix of rejected candidates,
// with the choices of a known accepted candidate served to every draw beyond
// the cell. D is measured, not assumed.

type refLeaf struct {
	D       int
	Choices []uint32 // choices of an accepted first candidate
	Out     string
}

// findRef finds an accepted candidate and the number D of draws per candidate
// without assuming either. Any successful forced run ends with an accepted
// candidate, so its last D choices are one; D is the smallest divisor d of the
// run's total number of draws for which forcing the last d choices (repeated
// cyclically) succeeds after exactly d draws. (A smaller d cannot pass: the
// first candidate alone consumes D > d draws. D itself passes.)
func findRef(r spg.CharRecipe, key uint64, tries int) (*refLeaf, error) {
	for i := 0; i < tries; i++ {
		k := ev.Mix64(key, uint64(i))
		o := callForced(nil, func(j int, n uint32) uint32 { return uint32(ev.Mix64(k, uint64(j)) % uint64(n)) }, k, r.Generate)
		if o.Panic != nil {
			return nil, fmt.Errorf("Generate panicked: %v", o.Panic)
		}
		if e := o.S.IndexLevelOK(); e != nil {
			return nil, &ev.Inc{Why: e.Error()}
		}
		if o.Pw == nil {
			continue
		}
		T := len(o.S.Draws)
		if T == 0 {
			return nil, &ev.Skip{Why: "generation makes no random choice"}
		}
		all := make([]uint32, T)
		for j, dr := range o.S.Draws {
			all[j] = dr.Choice
		}
		for d := 1; d <= T; d++ {
			if T%d != 0 {
				continue
			}
			ch := append([]uint32{}, all[T-d:]...)
			oo := callForced(ch, func(j int, n uint32) uint32 { return ch[j%d] }, k^0x77, r.Generate)
			if oo.Panic != nil {
				return nil, fmt.Errorf("Generate panicked: %v", oo.Panic)
			}
			if oo.Pw != nil && len(oo.S.Draws) == d {
				return &refLeaf{D: d, Choices: ch, Out: oo.Pw.String()}, nil
			}
		}
		return nil, &ev.Inc{Why: "could not determine the number of draws per candidate"}
	}
	return nil, &ev.Skip{Why: "no successful generation found by forcing"}
}

type cellResult struct {
	Ref       *refLeaf
	Bounds    []uint32
	Accepted  map[string]*big.Rat
	NAccepted int
	NRejected int
	AccW      *big.Rat
	RejW      *big.Rat
	Rejected  [][]uint32 // some rejected candidates' choices
	EntBits   map[uint32]int
	Leaves    int
}

// enumCell enumerates the candidate cell behind `prefix` (a concatenation of
// rejected candidates' choices).
func enumCell(r spg.CharRecipe, ref *refLeaf, prefix []uint32, maxLeaves int) (*cellResult, error) {
	res := &cellResult{Ref: ref, Accepted: map[string]*big.Rat{}, AccW: new(big.Rat), RejW: new(big.Rat), EntBits: map[uint32]int{}}
	D := ref.D
	P := len(prefix)
	cont := func(k int, n uint32) uint32 {
		j := (k - P) % D
		if j < 0 {
			j += D
		}
		return ref.Choices[j]
	}
	var out outcome
	leaves, err := enum.Enumerate(enum.Opts{Prefix: prefix, Depth: D, Cont: cont, MaxLeaves: maxLeaves, TailKey: 0x51}, func(s *enum.Session) {
		out = outcome{}
		s.Run(func() { out.Pw, out.Err = r.Generate() })
		out.Panic, out.S = s.Panic, s
	}, func(l *enum.Leaf) error {
		if out.Panic != nil {
			return fmt.Errorf("Generate panicked: %v", out.Panic)
		}
		total := len(l.S.Draws) - P
		if len(l.Region) != D {
			return fmt.Errorf("a candidate consumed %d draws, another %d: the number of draws per candidate is not constant", len(l.Region), D)
		}
		if res.Bounds == nil {
			for _, d := range l.Region {
				res.Bounds = append(res.Bounds, d.Bound)
			}
		}
		last := P/D == spg.MaxTrials-1 && P%D == 0 // the cell is the last permitted attempt
		switch {
		case total == D && last && out.Pw == nil && out.Err != nil:
			// rejected on the last permitted attempt: an error, no further draws
			res.RejW.Add(res.RejW, l.Weight)
			res.NRejected++
		case total == D:
			if out.Pw == nil {
				return fmt.Errorf("candidate consumed %d draws and Generate returned no password (err=%v)", D, out.Err)
			}
			s := out.Pw.String()
			w, ok := res.Accepted[s]
			if !ok {
				w = new(big.Rat)
				res.Accepted[s] = w
			}
			w.Add(w, l.Weight)
			res.AccW.Add(res.AccW, l.Weight)
			res.NAccepted++
			res.EntBits[math.Float32bits(out.Pw.Entropy)]++
		case total == 2*D:
			if out.Pw == nil || out.Pw.String() != ref.Out {
				got := "<nil>"
				if out.Pw != nil {
					got = out.Pw.String()
				}
				return fmt.Errorf("after a rejected candidate the next candidate's draws %v produced %q, but the same draws produce %q on a fresh start: a retry is not a complete redraw", ref.Choices, got, ref.Out)
			}
			res.RejW.Add(res.RejW, l.Weight)
			res.NRejected++
			if len(res.Rejected) < 16 {
				ch := make([]uint32, D)
				for j, d := range l.Region {
					ch[j] = d.Choice
				}
				res.Rejected = append(res.Rejected, ch)
			}
		default:
			return fmt.Errorf("a rejected candidate was followed by %d further draws before success (a complete redraw takes %d)", total-D, D)
		}
		return nil
	})
	res.Leaves = leaves
	ev.Leaves(int64(leaves))
	if err == enum.ErrTooBig {
		err = &ev.Inc{Why: "candidate cell larger than the reference predicts (leaf budget exceeded)"}
	}
	return res, err
}

package props

import (
	"bytes"
	"fmt"
	"os"
	"os/exec"
	"path/filepath"
	"strings"
	"testing"

	"go.1password.io/spg"
	"pgregory.net/rapid"

	"verif/harness/internal/ev"
	"verif/harness/internal/oracle"
)

// C17 - the opgen CLI is faithful to the library recipe its flags describe.

type cliFlag struct {
	Name  string `json:"name"`
	Value string `json:"value"`
	Bool  bool   `json:"bool,omitempty"`  // flag without value (--entropy)
	Style int    `json:"style,omitempty"` // bit0: single dash; bit1: separate argument instead of '='
}

type c17Case struct {
	Sub       string    `json:"sub"` // characters | words | "" (missing) | other (unknown)
	Flags     []cliFlag `json:"flags"`
	FileWords []string  `json:"file_words,omitempty"` // content of the --file list (nil: no --file)
	FileSep   string    `json:"file_sep,omitempty"`
}

var classWords = map[string]uint32{"uppercase": oracle.Uppers, "lowercase": oracle.Lowers, "digits": oracle.Digits, "symbols": oracle.Symbols, "ambiguous": oracle.Ambiguous}

func parseClasses(v string, def uint32) uint32 {
	if v == "" {
		return def
	}
	var f uint32
	for _, w := range strings.Split(strings.ReplaceAll(v, " ", ""), ",") {
		f |= classWords[w]
	}
	return f
}

var sepValues = map[string][]string{"hyphen": {"-"}, "space": {" "}, "comma": {","}, "period": {"."}, "underscore": {"_"},
	"digit": {"0", "1", "2", "3", "4", "5", "6", "7", "8", "9"}, "none": {""}}

func (c c17Case) argv(filePath string) []string {
	var a []string
	if c.Sub != "" {
		a = append(a, c.Sub)
	}
	for _, f := range c.Flags {
		d := "--"
		if f.Style&1 != 0 {
			d = "-"
		}
		v := f.Value
		if f.Name == "file" {
			v = filePath
		}
		switch {
		case f.Bool:
			a = append(a, d+f.Name)
		case f.Style&2 != 0:
			a = append(a, d+f.Name, v)
		default:
			a = append(a, d+f.Name+"="+v)
		}
	}
	return a
}

// wlLanguage decides whether line is Length atoms of the list under the scheme
// joined by separator values.
type st = struct{ pos, k, sel int }

func wlLanguage(line string, kept map[string]bool, titles map[string]bool, maxWord int, L int, scheme string, seps []string) bool {
	seen := map[st]bool{}
	var rec func(s st) bool
	rec = func(s st) bool {
		if seen[s] {
			return false
		}
		seen[s] = true
		if s.k == L {
			if s.pos != len(line) {
				return false
			}
			if scheme == "one" {
				return s.sel == 1
			}
			return true
		}
		rest := line[s.pos:]
		if s.k > 0 {
			// a separator first
			for _, sp := range seps {
				if strings.HasPrefix(rest, sp) {
					if tryAtom(line, s.pos+len(sp), s.k, s.sel, kept, titles, maxWord, scheme, rec) {
						return true
					}
				}
			}
			return false
		}
		return tryAtom(line, s.pos, s.k, s.sel, kept, titles, maxWord, scheme, rec)
	}
	return rec(st{0, 0, 0})
}

func tryAtom(line string, pos, k, sel int, kept, titles map[string]bool, maxWord int, scheme string, rec func(st) bool) bool {
	for n := 1; n <= maxWord && pos+n <= len(line); n++ {
		a := line[pos : pos+n]
		canUn, canSel := kept[a], titles[a]
		switch scheme {
		case "none":
			canSel = false
		case "first":
			if k == 0 {
				canUn = false
			} else {
				canSel = false
			}
		case "all":
			canUn = false
		}
		if canUn && rec(st{pos + n, k + 1, sel}) {
			return true
		}
		if canSel {
			ns := sel + 1
			if ns > 2 {
				ns = 2
			}
			if rec(st{pos + n, k + 1, ns}) {
				return true
			}
		}
	}
	return false
}

type runOut struct {
	Code   int
	Stdout string
	Stderr string
}

func runOpgen(args []string) (runOut, error) {
	bin := os.Getenv("VERIF_OPGEN")
	if bin == "" {
		return runOut{}, &ev.Inc{Why: "VERIF_OPGEN not set"}
	}
	cmd := exec.Command(bin, args...)
	var so, se bytes.Buffer
	cmd.Stdout, cmd.Stderr = &so, &se
	cmd.Env = []string{"PATH=/usr/bin:/bin", "HOME=/nonexistent"}
	err := cmd.Run()
	code := 0
	if err != nil {
		if ee, ok := err.(*exec.ExitError); ok {
			code = ee.ExitCode()
		} else {
			return runOut{}, &ev.Inc{Why: "cannot run opgen: " + err.Error()}
		}
	}
	return runOut{code, so.String(), se.String()}, nil
}

var listCache = map[string][2]map[string]bool{}
var listMax = map[string]int{}

func listSets(name string, words []string) (map[string]bool, map[string]bool, int) {
	if v, ok := listCache[name]; ok && name != "" {
		return v[0], v[1], listMax[name]
	}
	kept, titles := map[string]bool{}, map[string]bool{}
	mx := 0
	for _, w := range oracle.Kept(words) {
		kept[w] = true
		t := oracle.Title(w)
		titles[t] = true
		if len(w) > mx {
			mx = len(w)
		}
		if len(t) > mx {
			mx = len(t)
		}
	}
	if name != "" {
		listCache[name] = [2]map[string]bool{kept, titles}
		listMax[name] = mx
	}
	return kept, titles, mx
}

func c17Run(c c17Case) error {
	filePath := ""
	if c.FileWords != nil {
		dir := os.Getenv("VERIF_WORK")
		f, err := os.CreateTemp(dir, "wordfile-*.txt")
		if err != nil {
			return &ev.Inc{Why: err.Error()}
		}
		sep := c.FileSep
		if sep == "" {
			sep = "\n"
		}
		f.WriteString(strings.Join(c.FileWords, sep))
		if len(c.FileWords) > 0 {
			f.WriteString("\n")
		}
		f.Close()
		filePath = f.Name()
		defer os.Remove(filePath)
	}
	args := c.argv(filePath)
	out, err := runOpgen(args)
	if err != nil {
		return err
	}
	get := func(name, def string) string {
		v := def
		for _, f := range c.Flags {
			if f.Name == name {
				v = f.Value
			}
		}
		return v
	}
	has := func(name string) bool {
		for _, f := range c.Flags {
			if f.Name == name {
				return true
			}
		}
		return false
	}
	lines := strings.Split(strings.TrimSuffix(out.Stdout, "\n"), "\n")
	if out.Stdout == "" {
		lines = nil
	}
	nondef := 0
	for range c.Flags {
		nondef++
	}
	if nondef >= 2 {
		ev.NonTrivial(fmt.Sprintf("%v|%v", args, c.FileWords))
	}
	ev.Class("sub=" + c.Sub)
	if len(c.FileWords) < 100 {
		ev.Sample("c17", 5, c)
	}
	desc := fmt.Sprintf("opgen %s -> exit %d, stdout %q", strings.Join(args, " "), out.Code, trunc(out.Stdout, 200))

	// usage errors
	usage := c.Sub != "characters" && c.Sub != "words"
	knownC := map[string]bool{"length": true, "allow": true, "require": true, "exclude": true, "entropy": true}
	knownW := map[string]bool{"size": true, "list": true, "file": true, "separator": true, "capitalize": true, "entropy": true}
	for _, f := range c.Flags {
		if (c.Sub == "characters" && !knownC[f.Name]) || (c.Sub == "words" && !knownW[f.Name]) {
			usage = true
		}
	}
	if c.Sub == "words" && !has("file") {
		if l := get("list", "words"); l != "words" && l != "syllables" {
			usage = true
		}
	}

	var inLang func(line string) bool
	var entropy float32
	honoured := false
	switch {
	case usage:
	case c.Sub == "characters":
		var n int
		fmt.Sscanf(get("length", "20"), "%d", &n)
		sp := oracle.CharSpec{Length: n,
			Allow:   parseClasses(get("allow", ""), oracle.All),
			Require: parseClasses(get("require", ""), 0),
			Exclude: parseClasses(get("exclude", ""), oracle.Ambiguous)}
		refused, border := sp.Feasibility(spg.MaxTrials, spg.MaxFailRate)
		if border {
			return &ev.Skip{Why: "borderline"}
		}
		honoured = !refused
		inLang = func(line string) bool { ok, _ := sp.Valid(line); return ok && n >= 1 }
		cr := toRecipe(sp)
		entropy = cr.Entropy()
	case c.Sub == "words":
		var n int
		fmt.Sscanf(get("size", "4"), "%d", &n)
		var words []string
		name := ""
		if has("file") {
			for _, w := range c.FileWords {
				words = append(words, strings.Fields(w)...)
			}
		} else if name = get("list", "words"); name == "syllables" {
			words = spg.AgileSyllables
		} else {
			words = spg.AgileWords
		}
		honoured = len(words) > 0 && n >= 1
		scheme := get("capitalize", "none")
		seps := sepValues[get("separator", "hyphen")]
		if len(words) > 0 {
			kept, titles, mx := listSets(name, words)
			inLang = func(line string) bool { return n >= 1 && wlLanguage(line, kept, titles, mx, n, scheme, seps) }
			wl, err := spg.NewWordList(append([]string{}, words...))
			if err == nil {
				r := spg.NewWLRecipe(n, wl)
				r.Capitalize = spg.CapScheme(scheme)
				switch get("separator", "hyphen") {
				case "digit":
					r.SeparatorFunc = spg.SFDigits1
				case "none":
					r.SeparatorFunc = spg.SFNone
				default:
					v := seps[0]
					r.SeparatorFunc = func() (string, spg.FloatE) { return v, 0 }
				}
				entropy = r.Entropy()
			}
		} else {
			inLang = func(string) bool { return false }
		}
	}
	if inLang == nil {
		inLang = func(string) bool { return false }
	}

	if usage {
		ev.Class("usage_error")
		if out.Code != 2 {
			return fmt.Errorf("%s: usage error must exit 2", desc)
		}
		return nil // usage text is printed on stdout; it is not a password of any recipe
	}
	if !honoured {
		if has("entropy") {
			return &ev.Skip{Why: "--entropy with a refused recipe: statement silent"}
		}
		ev.Class("refused_recipe")
		if out.Code != 1 {
			return fmt.Errorf("%s: a recipe the library refuses must exit 1", desc)
		}
		for _, l := range lines {
			if inLang(l) {
				return fmt.Errorf("%s: printed a password although the recipe is refused", desc)
			}
		}
		return nil
	}
	ev.Class("honoured")
	if out.Code != 0 {
		return fmt.Errorf("%s (stderr %q): the library can honour this recipe, exit status must be 0", desc, trunc(out.Stderr, 200))
	}
	if len(lines) != 1 || out.Stdout != lines[0]+"\n" {
		return fmt.Errorf("%s: standard output must be exactly one line", desc)
	}
	if has("entropy") {
		ev.Class("entropy_flag")
		want := fmt.Sprintf("%.2f", entropy)
		if lines[0] != want {
			return fmt.Errorf("%s: --entropy printed %q, the library recipe's entropy is %s", desc, lines[0], want)
		}
		return nil
	}
	if !inLang(lines[0]) {
		return fmt.Errorf("%s: %q is not a password the equivalent library recipe can generate", desc, lines[0])
	}
	// membership cannot see a recipe that is too narrow; the entropy of the
	// recipe can: run the same command line with --entropy added
	out2, err := runOpgen(append(append([]string{}, args...), "--entropy"))
	if err != nil {
		return err
	}
	want := fmt.Sprintf("%.2f\n", entropy)
	if out2.Code != 0 || out2.Stdout != want {
		return fmt.Errorf("%s: the same command line with --entropy printed %q (exit %d), the equivalent library recipe has %q: the CLI is not generating from that recipe", desc, out2.Stdout, out2.Code, want)
	}
	ev.Class("entropy_cross_checked")
	return nil
}

var fileWordPool = []string{"100%", "%d", "a%sb", "50%%", "zanzibar", "quokka", "Quokka", "fjord", "xylem", "vivid", "jazzy", "kiwi", "Zebu", "mmm", "été", "ñu", "x", "yy", "42", "don't"}

func c17Gen(t *rapid.T) c17Case {
	var c c17Case
	// (rapid favours the ends of a range: the rare shapes sit in the middle)
	k := rapid.IntRange(0, 59).Draw(t, "subkind")
	switch {
	case k == 31:
		c.Sub = ""
		return c
	case k == 29 || k == 30:
		c.Sub = rapid.SampledFrom([]string{"recipe", "word", "chars", "Characters", "help"}).Draw(t, "badsub")
	case k < 29:
		c.Sub = "characters"
	default:
		c.Sub = "words"
	}
	// only the documented syntax --name=<value> (single dashes and separate
	// value arguments are what Go's flag package happens to accept too)
	style := func() int { return 0 }
	classList := func(label string) string {
		// (an explicitly empty list is not documented: "default" and "no class" are both defensible)
		n := rapid.IntRange(1, 4).Draw(t, label+"_n")
		var ws []string
		for i := 0; i < n; i++ {
			ws = append(ws, rapid.SampledFrom([]string{"uppercase", "lowercase", "digits", "symbols", "ambiguous"}).Draw(t, label))
		}
		j := ","
		if rapid.IntRange(0, 4).Draw(t, label+"_sp") == 0 {
			j = ", "
		}
		return strings.Join(ws, j)
	}
	if c.Sub == "characters" {
		if rapid.IntRange(0, 2).Draw(t, "f_len") > 0 {
			c.Flags = append(c.Flags, cliFlag{Name: "length", Value: fmt.Sprint(rapid.SampledFrom([]int{-1, 0, 1, 2, 3, 4, 5, 8, 12, 20, 33, 64}).Draw(t, "len")), Style: style()})
		}
		for _, n := range []string{"allow", "require", "exclude"} {
			if rapid.IntRange(0, 2).Draw(t, "f_"+n) == 0 {
				c.Flags = append(c.Flags, cliFlag{Name: n, Value: classList(n), Style: style()})
			}
		}
	} else if c.Sub == "words" {
		if rapid.IntRange(0, 2).Draw(t, "f_size") > 0 {
			c.Flags = append(c.Flags, cliFlag{Name: "size", Value: fmt.Sprint(rapid.SampledFrom([]int{-1, 0, 1, 2, 3, 4, 5, 7}).Draw(t, "size")), Style: style()})
		}
		switch rapid.IntRange(0, 5).Draw(t, "listkind") {
		case 0:
			c.Flags = append(c.Flags, cliFlag{Name: "list", Value: rapid.SampledFrom([]string{"words", "syllables", "syllables", "nouns"}).Draw(t, "list"), Style: style()})
		case 3:
			if rapid.IntRange(0, 9).Draw(t, "bigfile") == 0 {
				// a big list: more than a megabyte of words
				c.FileWords = make([]string, 0, 150000)
				for i := 0; i < 150000; i++ {
					c.FileWords = append(c.FileWords, fmt.Sprintf("w%07d", i))
				}
				c.FileSep = "\n"
				c.Flags = append(c.Flags, cliFlag{Name: "file", Style: style()})
			}
		case 1, 2:
			n := rapid.IntRange(0, 8).Draw(t, "nfile")
			c.FileWords = []string{}
			for i := 0; i < n; i++ {
				c.FileWords = append(c.FileWords, rapid.SampledFrom(fileWordPool).Draw(t, "fw"))
			}
			c.FileSep = "\n" // the file format is not documented: one blank-free word per line reads the same either way
			c.Flags = append(c.Flags, cliFlag{Name: "file", Style: style()})
		}
		if rapid.IntRange(0, 1).Draw(t, "f_sep") == 0 {
			c.Flags = append(c.Flags, cliFlag{Name: "separator", Value: rapid.SampledFrom([]string{"hyphen", "space", "comma", "period", "underscore", "digit", "none"}).Draw(t, "sep"), Style: style()})
		}
		if rapid.IntRange(0, 1).Draw(t, "f_cap") == 0 {
			c.Flags = append(c.Flags, cliFlag{Name: "capitalize", Value: rapid.SampledFrom([]string{"none", "first", "all", "random", "one"}).Draw(t, "cap"), Style: style()})
		}
	}
	if rapid.IntRange(0, 4).Draw(t, "f_entropy") == 0 {
		c.Flags = append(c.Flags, cliFlag{Name: "entropy", Bool: true, Style: style() & 1})
	}
	if rapid.IntRange(0, 14).Draw(t, "f_unknown") == 0 {
		c.Flags = append(c.Flags, cliFlag{Name: rapid.SampledFrom([]string{"len", "sizes", "verbose", "recipe"}).Draw(t, "unknown"), Value: "3"})
	}
	c.Flags = rapid.Permutation(c.Flags).Draw(t, "order")
	_ = filepath.Join
	return c
}

func TestC17(t *testing.T) {
	ev.Check(t, "c17_cli", ev.N(1600, 16000), c17Gen, c17Run)
}

package props

import (
	"testing"

	"verif/harness/internal/ev"
	"verif/harness/internal/oracle"
)

// Native coverage-guided fuzz targets (thorough tier only; never the only
// evidence). A failing input is written as an ordinary replay file for the
// corresponding rapid check, so `./check <id> --replay` reproduces it without
// the fuzzer.

func FuzzC12(f *testing.F) {
	// seeds: the vectors of token_test.go and hostile constants
	f.Add([]byte("correct horse battery staple"), []byte{2, 7, 1, 5, 1, 7, 1, 6}, uint32(0x42200000))
	f.Add([]byte("abc"), []byte{3, 1}, uint32(1))
	f.Add([]byte("abc"), []byte{3, 1, 1, 2}, uint32(1))
	f.Add([]byte(""), []byte{}, uint32(0))
	f.Add([]byte("正確馬"), []byte{1, 2, 1}, uint32(7))
	f.Add([]byte("\xff\xfe"), []byte{0}, uint32(7))
	f.Add([]byte("ab"), []byte{1, 255, 255}, uint32(7))
	f.Add([]byte("ab"), []byte{200, 1}, uint32(7))
	f.Fuzz(func(t *testing.T, pw, idx []byte, e uint32) {
		c := c12Case{Pw: pw, Index: idx, Entropy: float32frombits(e)}
		if err := c12Run(c); err != nil && !ev.IsSkip(err) {
			ev.WriteReplay("c12_total", c, err.Error())
			t.Fatal(err)
		}
	})
}

func FuzzC11(f *testing.F) {
	f.Add([]byte{1, 3, 0, 1, 2, 0, 1, 1, 5, 5, 5, 5}, uint32(0x42200000))
	f.Add([]byte{1, 1, 9}, uint32(1))
	f.Add([]byte{0, 2, 10, 11, 1, 2, 12, 13, 0, 1, 14}, uint32(1))
	f.Fuzz(func(t *testing.T, data []byte, e uint32) {
		// data provider: [type][len][len content bytes -> characters] ...
		var toks []oracle.Tok
		for len(data) >= 2 && len(toks) < 12 {
			tt, n := data[0]&1, int(data[1])
			data = data[2:]
			if n == 0 {
				n = 1
			}
			if n > len(data) {
				n = len(data)
			}
			if n == 0 {
				break
			}
			v := ""
			for _, b := range data[:n] {
				v += c11Chars[int(b)%len(c11Chars)]
			}
			data = data[n:]
			toks = append(toks, oracle.Tok{V: v, T: tt})
		}
		if len(toks) == 0 {
			return
		}
		c := c11Case{Toks: toks, Entropy: float32frombits(e)}
		if err := c11RunToks(c); err != nil && !ev.IsSkip(err) {
			ev.WriteReplay("c11_tokens", c, err.Error())
			t.Fatal(err)
		}
	})
}

package props

import (
	"fmt"
	"math"
	"testing"

	"pgregory.net/rapid"

	"verif/harness/internal/ev"
	"verif/harness/internal/gen"
	"verif/harness/internal/oracle"
)

// C07 - character-recipe entropy = log2 of the exact number of satisfying passwords.

type c07Case struct {
	Spec oracle.CharSpec `json:"spec"`
}

func c07Classify(c oracle.CharSpec) (nontrivial bool, key string) {
	req := c.Required()
	overlap := false
	for i := range req {
		for j := i + 1; j < len(req); j++ {
			for ch := range req[i] {
				if req[j][ch] {
					overlap = true
				}
			}
		}
	}
	ex := c.Excluded()
	reqEx := false
	for _, r := range c.RequiredRaw() {
		for ch := range r {
			if ex[ch] {
				reqEx = true
			}
		}
	}
	ev.Class(fmt.Sprintf("required_sets=%d", len(req)))
	if overlap {
		ev.Class("required_overlap")
	}
	if reqEx {
		ev.Class("required_meets_excluded")
	}
	if c.Length > 64 {
		ev.Class("length>64")
	}
	return (len(req) >= 2 && overlap) || (len(req) >= 1 && reqEx), fmt.Sprintf("%+v", c)
}

func c07Run(cs c07Case) error {
	c := cs.Spec
	// premise of C07: every required set keeps a non-excluded character
	for _, set := range c.RequireSets {
		if set == "" {
			// a custom set given empty keeps no character either
			ev.Class("premise_failed_skipped")
			return &ev.Skip{Why: "an empty custom required set (outside C07's premise)"}
		}
	}
	if c.EmptiedRequired() > 0 {
		ev.Class("premise_failed_skipped")
		return &ev.Skip{Why: "a required set is emptied by exclusion (outside C07's premise)"}
	}
	if len(c.AlphabetSet()) == 0 {
		return &ev.Skip{Why: "empty alphabet"}
	}
	nt, key := c07Classify(c)
	if nt {
		ev.NonTrivial(key)
	}
	ev.Sample("c07", 4, cs)
	count := c.CountIE()
	if c.Length <= 400 {
		if dp := c.CountDP(); dp.Cmp(count) != 0 {
			return &ev.Inc{Why: fmt.Sprintf("oracle disagreement IE=%v DP=%v for %+v", count, dp, c)}
		}
	}
	if b, ok := c.CountBrute(20000); ok {
		ev.Class("brute_crosschecked")
		if b.Cmp(count) != 0 {
			return &ev.Inc{Why: fmt.Sprintf("oracle disagreement IE=%v brute=%v for %+v", count, b, c)}
		}
	}
	want := oracle.Log2Big(count)
	r := toRecipe(c)
	var vals [3]float32
	for i := range vals {
		vals[i] = r.Entropy()
	}
	for i := 1; i < 3; i++ {
		if math.Float32bits(vals[i]) != math.Float32bits(vals[0]) {
			return fmt.Errorf("Entropy() differs between calls: %v vs %v", vals[0], vals[i])
		}
	}
	got := vals[0]
	if math.IsNaN(float64(got)) {
		return fmt.Errorf("Entropy() is NaN; exact count %v (log2 %.6f)", count, want)
	}
	if count.Sign() == 0 {
		if !math.IsInf(float64(got), -1) {
			return fmt.Errorf("no string satisfies the recipe but Entropy() = %v, want -Inf", got)
		}
		ev.Class("count_zero")
	} else if !oracle.Close32(got, want, 2, 0) {
		return fmt.Errorf("Entropy() = %v, want log2(%v) = %.6f", got, count, want)
	}
	if len(c.Required()) > 0 {
		if vc := r.VerifCount(); vc.Cmp(count) != 0 {
			return fmt.Errorf("exact count = %v, want %v", vc, count)
		}
		ev.Class("integer_count_compared")
	}
	return nil
}

// c07WithSiblings evaluates the recipe and then recipes that are easily
// confused with it (same characters, differently split sets) in the same
// process: Entropy() must depend on the recipe alone.
func c07WithSiblings(cs c07Case) error {
	if err := c07Run(cs); err != nil {
		return err
	}
	for i, sib := range gen.Siblings(cs.Spec) {
		if sib.EmptiedRequired() > 0 || len(sib.AlphabetSet()) == 0 {
			continue
		}
		ev.Eval(1)
		if err := c07Run(c07Case{sib}); err != nil && !ev.IsSkip(err) {
			if _, inc := err.(*ev.Inc); inc {
				return err
			}
			return fmt.Errorf("after Entropy() of %+v, the sibling recipe #%d %+v: %w", cs.Spec, i, sib, err)
		}
		ev.Class("sibling_recipes_evaluated")
	}
	return nil
}

func TestC07(t *testing.T) {
	ev.Check(t, "c07_entropy", ev.N(48000, 600000), func(t *rapid.T) c07Case {
		return c07Case{gen.CharSpec(t, gen.CharOpts{MaxLen: 64, MaxReq: 4, LongTail: 4000})}
	}, c07WithSiblings)
	// alphabets of several hundred characters with many small required sets and a
	// length near their number: the count is a tiny fraction of |alphabet|^Length
	ev.Check(t, "c07_wide_alphabet", ev.N(320, 3200), func(t *rapid.T) c07Case {
		base := rapid.SampledFrom([]int{0x4E00, 0x0400, 0x3041, 0xAC00}).Draw(t, "block")
		n := rapid.IntRange(120, 600).Draw(t, "alphabet_size")
		ab := make([]rune, n)
		for i := range ab {
			ab[i] = rune(base + i)
		}
		c := oracle.CharSpec{AllowChars: string(ab)}
		k := rapid.IntRange(3, 8).Draw(t, "nsets")
		for i := 0; i < k; i++ {
			sz := rapid.IntRange(1, 3).Draw(t, "setsize")
			s := ""
			for j := 0; j < sz; j++ {
				s += string(ab[rapid.IntRange(0, n-1).Draw(t, "member")])
			}
			c.RequireSets = append(c.RequireSets, s)
		}
		c.Length = k + rapid.IntRange(0, 3).Draw(t, "extra_length")
		return c07Case{c}
	}, c07Run)
	if ev.Thorough() || ev.Cfg.Replay != "" {
		// beyond the stated range of 8 required sets: 13 singleton sets
		ev.Check(t, "c07_thirteen_sets", 1, func(t *rapid.T) c07Case {
			c := oracle.CharSpec{Length: rapid.IntRange(14, 18).Draw(t, "length"), Allow: oracle.Digits}
			for i := 0; i < 13; i++ {
				c.RequireSets = append(c.RequireSets, string(rune('a'+i)))
			}
			return c07Case{c}
		}, c07Run)
	}
	// counts just below powers of two that matter to float32/float64/int64
	// conversions: an alphabet of 2^k characters, k*Length bits, one almost
	// harmless requirement
	ev.Fixed(t, "c07_power_boundaries", func(do func(c07Case) bool) {
		pool := "abcdefghijklmnopqrstuvwxyzABCDEFGHIJKLMNOPQRSTUVWXYZ0123456789+/"
		i := 0
		for k := 1; k <= 6; k++ {
			for _, bits := range []int{24, 31, 32, 53, 63, 64, 65, 127, 128, 129, 255, 256, 511, 512, 1022, 1023, 1024, 1025, 1026, 2048} {
				if bits%k != 0 {
					continue
				}
				i++
				if i%ev.Cfg.NShards != ev.Cfg.Shard {
					continue
				}
				ab := pool[:1<<uint(k)]
				for _, req := range []string{ab[:len(ab)-1], ab[:1], ab} {
					if !do(c07Case{oracle.CharSpec{Length: bits / k, AllowChars: ab, RequireSets: []string{req}}}) {
						return
					}
				}
			}
		}
	}, c07Run)
	ev.Check(t, "c07_many_sets", ev.N(160, 1600), func(t *rapid.T) c07Case {
		c := gen.CharSpec(t, gen.CharOpts{MaxLen: 40, MaxReq: 8, NoHiBits: true})
		c.Require = 0
		n := rapid.IntRange(5, 8).Draw(t, "nsets")
		c.RequireSets = nil
		for i := 0; i < n; i++ {
			k := rapid.IntRange(1, 4).Draw(t, "k")
			s := ""
			for j := 0; j < k; j++ {
				s += rapid.SampledFrom(gen.CharPool).Draw(t, "ch")
			}
			c.RequireSets = append(c.RequireSets, s)
		}
		return c07Case{c}
	}, c07Run)
}

package props

import (
	"fmt"
	"math"
	"verif/harness/internal/tape"

	"go.1password.io/spg"

	"verif/harness/internal/ev"
	"verif/harness/internal/gen"
	"verif/harness/internal/oracle"
)

// Support (reachability) checks for recipes far too large to enumerate:
// every outcome that must have positive probability has to show up among N
// generations driven by pseudo-random index choices. The choices are uniform
// over each draw's alternatives, so a correct generator misses a particular
// outcome of probability p with probability (1-p)^N; N is chosen so that the
// union bound over all outcomes checked is below 1e-12. A miss is therefore
// reported as a violation (an outcome the recipe promises never occurs).

func supportN(p float64, outcomes int) int {
	// smallest N with outcomes*(1-p)^N <= 1e-12
	n := math.Log(1e-12/float64(outcomes)) / math.Log(1-p)
	return int(n) + 1
}

type supWL struct {
	W   gen.WLSpec `json:"w"`
	Key uint64     `json:"key"`
}

// wlSupport: long wordlist recipes. Premise: every word capitalisable with
// distinct title forms (so a capitalised atom identifies its word and state).
func wlSupport(c supWL) error {
	w := c.W
	kept := oracle.Kept(w.Words)
	if !oracle.PremiseOK(kept) || !oracle.AllCapitalisable(kept) {
		return &ev.Skip{Why: "premise"}
	}
	r, m, err := buildWL(w)
	if err != nil {
		return &ev.Skip{Why: "empty"}
	}
	L, mW := w.Length, len(kept)
	idx := map[string]int{}
	for i, k := range kept {
		idx[k] = i
		idx[oracle.Title(k)] = i
	}
	pmin := 1.0 / float64(mW)
	outcomes := L * mW
	if w.Scheme == "one" {
		if 1.0/float64(L) < pmin {
			pmin = 1.0 / float64(L)
		}
		outcomes += L
	}
	if w.Scheme == "random" {
		if 0.5 < pmin {
			pmin = 0.5
		}
		outcomes += 2 * L
	}
	ns := len(m.Values)
	if ns > 1 {
		if 1.0/float64(ns) < pmin {
			pmin = 1.0 / float64(ns)
		}
		outcomes += (L - 1) * ns
	}
	N := supportN(pmin, outcomes)
	wordSeen := make([][]bool, L)
	for i := range wordSeen {
		wordSeen[i] = make([]bool, mW)
	}
	capSeen := make([]bool, L)
	uncapSeen := make([]bool, L)
	sepSeen := make([]map[string]bool, L)
	for i := range sepSeen {
		sepSeen[i] = map[string]bool{}
	}
	for it := 0; it < N; it++ {
		k := ev.Mix64(c.Key, uint64(it))
		o := callRaw(&tape.Tape{TailKey: k | 1, Cap: 1 << 24}, r.Generate) // raw pseudo-random words: no hook contract needed
		if o.Panic != nil || o.Pw == nil {
			return fmt.Errorf("Generate failed: %v %v", o.Panic, o.Err)
		}
		// (the token layout itself is C05's business: a password this loop
		// cannot read is not judged here)
		pos := 0
		gapHasSep := false
		for _, t := range o.Pw.Tokens() {
			if t.Type() == spg.AtomType {
				if pos > 0 && !gapHasSep {
					sepSeen[pos-1][""] = true
				}
				a := t.Value()
				if _, known := idx[a]; !known || pos >= L {
					ev.Class("unreadable_layout_not_judged")
					return &ev.Skip{Why: "token layout not as documented (C05)"}
				}
				wordSeen[pos][idx[a]] = true
				if a == kept[idx[a]] {
					uncapSeen[pos] = true
				} else {
					capSeen[pos] = true
				}
				pos++
				gapHasSep = false
			} else {
				if pos < 1 || pos > L {
					ev.Class("unreadable_layout_not_judged")
					return &ev.Skip{Why: "token layout not as documented (C05)"}
				}
				if t.Value() != "" { // an empty separator token is "no separator"
					sepSeen[pos-1][t.Value()] = true
					gapHasSep = true
				}
			}
		}
	}
	ev.Leaves(int64(N))
	for p := 0; p < L; p++ {
		for wi := 0; wi < mW; wi++ {
			if !wordSeen[p][wi] {
				return fmt.Errorf("word %q never appears at position %d of %d in %d generations driven by pseudo-random source words (each word must be equally likely at every position)", kept[wi], p, L, N)
			}
		}
		switch w.Scheme {
		case "one", "random":
			if !capSeen[p] {
				return fmt.Errorf("scheme %s, Length %d: position %d is never capitalised in %d generations driven by pseudo-random source words", w.Scheme, L, p, N)
			}
			if !uncapSeen[p] && L > 1 {
				return fmt.Errorf("scheme %s, Length %d: position %d is always capitalised in %d generations", w.Scheme, L, p, N)
			}
		}
		if p < L-1 && ns > 1 {
			for _, v := range m.Values {
				if !sepSeen[p][v] {
					return fmt.Errorf("separator value %q never appears in gap %d of %d in %d generations (each gap is a fresh draw from the separator function)", v, p, L-1, N)
				}
			}
		}
	}
	return nil
}

type supChar struct {
	Spec oracle.CharSpec `json:"spec"`
	Key  uint64          `json:"key"`
}

// charSupport: long character passwords / big alphabets: every alphabet
// character must be reachable at every position.
func charSupport(c supChar) error {
	sp := c.Spec
	if rf, b := sp.Feasibility(spg.MaxTrials, spg.MaxFailRate); rf || b {
		return &ev.Skip{Why: "refused"}
	}
	if sp.Length < len(sp.Required())+1 {
		return &ev.Skip{Why: "some characters cannot occur at some positions"}
	}
	ab := sp.Alphabet()
	U, L := len(ab), sp.Length
	r := toRecipe(sp)
	ix := map[string]int{}
	for i, ch := range ab {
		ix[ch] = i
	}
	// requirements skew the conditional distribution a little; use half the
	// unconditional probability as the lower bound (valid when p_success >= 1/2
	// - otherwise skip)
	ps, _ := sp.PSuccess()
	pf, _ := ps.Float64()
	if pf < 0.5 {
		return &ev.Skip{Why: "low success probability"}
	}
	N := supportN(0.5/float64(U), U*L)
	seen := make([][]bool, L)
	for i := range seen {
		seen[i] = make([]bool, U)
	}
	for it := 0; it < N; it++ {
		k := ev.Mix64(c.Key, uint64(it))
		o := callRaw(&tape.Tape{TailKey: k | 1, Cap: 1 << 24}, r.Generate) // raw pseudo-random words: no hook contract needed
		if o.Panic != nil {
			return fmt.Errorf("Generate panicked: %v", o.Panic)
		}
		if o.Pw == nil {
			continue
		}
		if err := checkCharPassword(sp, o.Pw); err != nil {
			return err
		}
		for p, t := range o.Pw.Tokens() {
			seen[p][ix[t.Value()]] = true
		}
	}
	ev.Leaves(int64(N))
	for p := 0; p < L; p++ {
		for u := 0; u < U; u++ {
			if !seen[p][u] {
				return fmt.Errorf("character %q never appears at position %d of %d in %d generations driven by pseudo-random source words (alphabet of %d)", ab[u], p, L, N, U)
			}
		}
	}
	return nil
}

package props

import (
	"crypto/rand"
	"fmt"
	"math"
	"reflect"
	"sort"
	"strings"
	"testing"
	"verif/harness/internal/tape"

	"go.1password.io/spg"
	"pgregory.net/rapid"

	"verif/harness/internal/ev"
	"verif/harness/internal/gen"
	"verif/harness/internal/oracle"
)

// C10 - word lists normalise to a duplicate-free set; capitalised twins removed.

type c10Case struct {
	Words      []string `json:"words"`
	Perms      [][]int  `json:"perms"`
	Len        int      `json:"len"`
	noSiblings bool
}

// shipped lists and slices of them, in one process
type c10Shipped struct {
	List string `json:"list"`
	Lo   int    `json:"lo"`
	Hi   int    `json:"hi"`
}

func c10ShippedRun(c c10Shipped) error {
	src := spg.AgileWords
	if c.List == "syllables" {
		src = spg.AgileSyllables
	}
	hi := c.Hi
	if hi > len(src) {
		hi = len(src)
	}
	in := src[c.Lo:hi]
	snapshot := append([]string{}, in...)
	wl, err := spg.NewWordList(in)
	if err != nil {
		return fmt.Errorf("NewWordList(%s[%d:%d]) failed: %v", c.List, c.Lo, hi, err)
	}
	if !reflect.DeepEqual(in, snapshot) {
		return fmt.Errorf("NewWordList modified the shipped %s list in place", c.List)
	}
	kept := oracle.Kept(snapshot)
	if int(wl.Size()) != len(kept) {
		return fmt.Errorf("NewWordList(%s[%d:%d]).Size() = %d, want %d", c.List, c.Lo, hi, wl.Size(), len(kept))
	}
	if hi-c.Lo <= 600 {
		if int(wl.Size()) != len(kept) {
			return fmt.Errorf("NewWordList(%s[%d:%d]): Size() = %d, want %d kept words", c.List, c.Lo, hi, wl.Size(), len(kept))
		}
		got, err := readKept(wl)
		if err != nil {
			return err
		}
		if !reflect.DeepEqual(got, kept) {
			return fmt.Errorf("NewWordList(%s[%d:%d]) holds %.200q, want %.200q", c.List, c.Lo, hi, fmt.Sprint(got), fmt.Sprint(kept))
		}
	}
	ev.NonTrivial(fmt.Sprintf("shipped|%s|%d|%d", c.List, c.Lo, hi))
	return nil
}

// readKept reads the set of words a WordList can yield without any assumption
// about how Generate draws: one-word passwords from N pseudo-random source
// streams, N = S*(ln S + 30) for a list of size S, so that (coupon collector)
// a word the list holds is missed with probability below e^-30. It returns the
// distinct atoms, sorted; the callers compare Size() separately.
func readKept(wl *spg.WordList) ([]string, error) {
	r := spg.NewWLRecipe(1, wl)
	n := int(wl.Size())
	if n <= 0 {
		return nil, fmt.Errorf("Size() = %d", n)
	}
	N := int(float64(n)*(math.Log(float64(n))+30)) + 1
	tp := &tape.Tape{TailKey: ev.Mix64(uint64(n), 0x10ad) | 1, Cap: 1 << 40, MaxReads: 1 << 40}
	oldR, oldO := rand.Reader, spg.VerifDrawObserver
	rand.Reader, spg.VerifDrawObserver = tp, nil
	defer func() { rand.Reader, spg.VerifDrawObserver = oldR, oldO }()
	seen := map[string]bool{}
	var fail error
	func() {
		defer func() {
			if rec := recover(); rec != nil {
				fail = fmt.Errorf("one-word generation panicked: %v", rec)
			}
		}()
		for i := 0; i < N; i++ {
			p, err := r.Generate()
			if err != nil || p == nil {
				fail = fmt.Errorf("one-word generation failed: %v", err)
				return
			}
			at := p.Tokens().Atoms()
			if len(at) != 1 {
				fail = &ev.Skip{Why: "a one-word password does not have one atom (C05)"}
				return
			}
			seen[at[0]] = true
		}
	}()
	if fail != nil {
		return nil, fail
	}
	out := make([]string, 0, len(seen))
	for w := range seen {
		out = append(out, w)
	}
	sort.Strings(out)
	ev.Leaves(int64(N))
	return out, nil
}

func c10Run(c c10Case) (err error) {
	if len(c.Words) == 0 {
		for _, in := range [][]string{nil, {}} {
			wl, err := spg.NewWordList(in)
			if err == nil || wl != nil {
				return fmt.Errorf("NewWordList(empty) = %v, %v; want nil and an error", wl, err)
			}
		}
		return nil
	}
	kept := oracle.Kept(c.Words)
	set := map[string]bool{}
	dup, twin := false, false
	for _, w := range c.Words {
		if set[w] {
			dup = true
		}
		set[w] = true
	}
	for w := range set {
		if t := oracle.Title(w); t != w && set[t] {
			twin = true
		}
	}
	if dup {
		ev.Class("has_duplicate")
	}
	if twin {
		ev.Class("has_twin")
	}
	if dup && twin {
		ev.NonTrivial(fmt.Sprint(kept, len(c.Words)))
	}
	ev.Sample("c10", 4, c)
	keptSet := map[string]bool{}
	for _, w := range kept {
		keptSet[w] = true
	}
	// lists easily confused with this one when words are flattened into a key
	// (two words merged, a word split): normalised on their own terms
	if len(c.Words) >= 2 && !c.noSiblings {
		var sibs [][]string
		for _, d := range []string{"", " "} {
			sibs = append(sibs, append([]string{c.Words[0] + d + c.Words[1]}, c.Words[2:]...))
		}
		if cs := oracle.Chars(c.Words[0]); len(cs) >= 2 {
			sibs = append(sibs, append([]string{cs[0], strings.Join(cs[1:], "")}, c.Words[1:]...))
		}
		defer func() {
			if err != nil {
				return
			}
			for _, sw := range sibs {
				ev.Eval(1)
				if e := c10Run(c10Case{Words: sw, Len: c.Len, noSiblings: true}); e != nil && !ev.IsSkip(e) {
					err = fmt.Errorf("after NewWordList(%q), the list %q: %w", c.Words, sw, e)
					return
				}
			}
		}()
	}
	perms := append([][]int{nil}, c.Perms...)
	for pi, perm := range perms {
		var in []string
		if perm == nil {
			in = append([]string{}, c.Words...)
		} else {
			for _, j := range perm {
				in = append(in, c.Words[j%len(c.Words)])
			}
		}
		snapshot := append([]string{}, in...)
		wl, err := spg.NewWordList(in)
		if err != nil || wl == nil {
			return fmt.Errorf("NewWordList(%q) failed: %v", in, err)
		}
		if !reflect.DeepEqual(in, snapshot) {
			return fmt.Errorf("caller's slice modified: %q -> %q", snapshot, in)
		}
		if int(wl.Size()) != len(kept) {
			return fmt.Errorf("construction %d: Size() = %d, want %d kept words %q from input %q", pi, wl.Size(), len(kept), kept, in)
		}
		got, err := readKept(wl)
		if err != nil {
			return err
		}
		if !reflect.DeepEqual(got, kept) {
			return fmt.Errorf("construction %d: kept words %q, want %q (input %q)", pi, got, kept, in)
		}
		// the caller reuses its slice (scratch buffer for the next list): the
		// word list already built must not follow it
		for i := range in {
			in[i] = fmt.Sprintf("reused-%d", i%3)
		}
		again, err := readKept(wl)
		if err != nil {
			return err
		}
		if !reflect.DeepEqual(again, kept) || int(wl.Size()) != len(kept) {
			return fmt.Errorf("after the caller overwrote its own slice the word list holds %q (Size %d), it was built from %q", again, wl.Size(), snapshot)
		}
		if pi == 0 {
			// atoms under capitalisation are kept words or their title forms
			for _, scheme := range []spg.CapScheme{spg.CSAll, spg.CSRandom, spg.CSOne, spg.CSFirst} {
				r := spg.NewWLRecipe(c.Len, wl)
				r.Capitalize = scheme
				o := callForced(nil, func(k int, n uint32) uint32 { return uint32(k*7+pi) % n }, uint64(len(in)), r.Generate)
				if o.Panic != nil || o.Err != nil {
					return fmt.Errorf("Generate failed: panic=%v err=%v", o.Panic, o.Err)
				}
				for _, a := range o.Pw.Tokens().Atoms() {
					ok := keptSet[a]
					if !ok {
						for _, w := range kept {
							if oracle.Title(w) == a {
								ok = true
								break
							}
						}
					}
					if !ok {
						return fmt.Errorf("atom %q is neither a kept word nor a title form (kept %q)", a, kept)
					}
				}
			}
		}
	}
	return nil
}

// c10Pool: the shared pool plus letters whose title-case and upper-case forms
// differ (the digraphs U+01C4..U+01CC, U+01F1..U+01F3): "ǅemal" is the
// title-cased twin of both "ǆemal" and "Ǆemal", and "Ǆemal" is nobody's twin.
var c10Pool = append(append([]string{}, gen.WordPool...), "ǅemal", "Ǆemal", "ǳeta", "ǲeta", "Ǳeta", "ǌegos", "ǋegos")

func TestC10(t *testing.T) {
	if !requireHooks(t) {
		return
	}
	K := ev.Pick(16, 100)
	ev.Check(t, "c10_normalise", ev.N(24000, 300000), func(t *rapid.T) c10Case {
		n := rapid.IntRange(0, 40).Draw(t, "empty")
		if n == 0 {
			return c10Case{}
		}
		c := c10Case{Words: gen.WordList(t, gen.WordListOpts{Min: 1, Max: 12, Pool: c10Pool}), Len: rapid.IntRange(1, 6).Draw(t, "len")}
		for i := 0; i < K; i++ {
			c.Perms = append(c.Perms, gen.Perm(t, len(c.Words), "perm"))
		}
		return c
	}, c10Run)
	ev.Fixed(t, "c10_big_distinct", func(do func(int) bool) {
		if ev.Cfg.Shard == 1%ev.Cfg.NShards {
			do(300000 + int(ev.Cfg.Seed%1000))
		}
	}, func(n int) error {
		words := make([]string, n)
		for i := range words {
			words[i] = fmt.Sprintf("w%07d", i)
		}
		wl, err := spg.NewWordList(words)
		if err != nil {
			return err
		}
		if int(wl.Size()) != n {
			return fmt.Errorf("NewWordList of %d distinct words keeps %d", n, wl.Size())
		}
		ev.NonTrivial(fmt.Sprintf("bigdistinct|%d", n))
		return nil
	})
	// long lists with the interesting entries far apart (a word and its
	// title-cased twin 70000 entries from each other, exact duplicates in
	// distant places, a twin listed again later): the kept set is the same
	ev.Fixed(t, "c10_big_far_apart", func(do func(int) bool) {
		if ev.Cfg.Shard == 2%ev.Cfg.NShards {
			do(70000 + int(ev.Cfg.Seed%5000))
		}
	}, func(n int) error {
		words := make([]string, n)
		for i := range words {
			words[i] = fmt.Sprintf("w%07d", i)
		}
		words[0], words[n-1] = "polish", "Polish"
		words[n/2], words[n/2+40000%(n/2)] = "Ice cream", "ice cream"
		words[7], words[n-7] = "été", "été"
		words[33000], words[33001], words[n-3] = "zulu", "Zulu", "Zulu"
		words[n/3] = "w0000001" // an exact duplicate of an early entry
		kept := oracle.Kept(words)
		wl, err := spg.NewWordList(append([]string{}, words...))
		if err != nil {
			return err
		}
		if int(wl.Size()) != len(kept) {
			return fmt.Errorf("list of %d entries with twins and duplicates far apart: Size() = %d, want %d kept words", n, wl.Size(), len(kept))
		}
		got, err := readKept(wl)
		if err != nil {
			return err
		}
		if len(got) != len(kept) {
			return fmt.Errorf("list of %d entries with twins and duplicates far apart: it yields %d distinct words, want %d", n, len(got), len(kept))
		}
		for i := range kept {
			if got[i] != kept[i] {
				return fmt.Errorf("list of %d entries with twins and duplicates far apart: kept word %d is %q, want %q", n, i, got[i], kept[i])
			}
		}
		ev.Leaves(int64(len(kept)))
		ev.NonTrivial(fmt.Sprintf("bigfar|%d", n))
		return nil
	})
	ev.Fixed(t, "c10_shipped_slices", func(do func(c10Shipped) bool) {
		if ev.Cfg.Shard != 0 {
			return
		}
		k := 32 + int(ev.Cfg.Seed%200)
		for _, l := range []string{"syllables", "words"} {
			for _, r := range [][2]int{{0, 1 << 30}, {0, k}, {1, k + 1}, {0, 1 << 30}, {k, 2 * k}, {0, 1}} {
				if !do(c10Shipped{l, r[0], r[1]}) {
					return
				}
			}
		}
	}, c10ShippedRun)
}

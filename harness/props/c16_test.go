package props

import (
	"bufio"
	"fmt"
	"math"
	"math/big"
	"os"
	"path/filepath"
	"reflect"
	"sort"
	"strings"
	"testing"

	"go.1password.io/spg"

	"verif/harness/internal/enum"
	"verif/harness/internal/ev"
	"verif/harness/internal/oracle"
)

// C16 - classes, defaults, presets and shipped lists are as documented.

type c16Item struct {
	What  string `json:"what"`
	Arg   int    `json:"arg"`
	After bool   `json:"after_warmup,omitempty"`
}

// c16Warmup calls the library with a few thousand other recipes.
func c16Warmup() {
	for i := 0; i < 1<<15; i += 5 {
		r := spg.CharRecipe{Length: 3 + i%7, Allow: spg.CTFlag(i & 31), Require: spg.CTFlag(i>>5) & 31, Exclude: spg.CTFlag(i>>10) & 31}
		r.Alphabet()
		if i%25 == 0 {
			r.Entropy()
			callForced(nil, func(k int, n uint32) uint32 { return uint32(k*5+i) % n }, uint64(i), r.Generate)
		}
	}
	for _, f := range presetByName {
		for i := 0; i < 4; i++ {
			f()
		}
	}
	for _, l := range [][]string{spg.AgileWords, spg.AgileSyllables, spg.AgileSyllables[:64]} {
		if wl, err := spg.NewWordList(l); err == nil {
			r := spg.NewWLRecipe(3, wl)
			r.Capitalize = spg.CSRandom
			// a caller-made separator that can never be generated
			r.SeparatorFunc = spg.NewSFFunction(spg.CharRecipe{Length: 1, Allow: spg.All, Require: spg.Digits | spg.Symbols})
			r.Generate()
			r.SeparatorFunc = spg.NewSFFunction(spg.CharRecipe{Length: 1, Allow: spg.All, Require: spg.Symbols})
			r.Generate()
			r.Entropy()
		}
	}
}

var c16Flags = map[string]spg.CTFlag{"Uppers": spg.Uppers, "Lowers": spg.Lowers, "Digits": spg.Digits, "Symbols": spg.Symbols, "Ambiguous": spg.Ambiguous}

func sortedChars(s string) string {
	cs := oracle.Chars(s)
	m := map[string]bool{}
	for _, c := range cs {
		m[c] = true
	}
	return strings.Join(oracle.CharSpec{AllowChars: s}.Alphabet(), "")
}

// alphabetOf calls Alphabet() on an addressable copy (works for value and pointer receivers).
func alphabetOf(r spg.CharRecipe) string { return r.Alphabet() }

func o16keys(m map[string]bool) []string {
	var out []string
	for k := range m {
		out = append(out, k)
	}
	sort.Strings(out)
	return out
}

func readLines(path string) ([]string, error) {
	f, err := os.Open(path)
	if err != nil {
		return nil, err
	}
	defer f.Close()
	var out []string
	sc := bufio.NewScanner(f)
	for sc.Scan() {
		out = append(out, sc.Text())
	}
	return out, sc.Err()
}

func c16Run(it c16Item) error {
	doc := map[string]string{
		"Uppers": "ABCDEFGHIJKLMNOPQRSTUVWXYZ", "Lowers": "abcdefghijklmnopqrstuvwxyz", "Digits": "0123456789",
		"Symbols": "!@.-_*", "Ambiguous": "0O1Il5S",
	}
	switch it.What {
	case "class":
		name := []string{"Uppers", "Lowers", "Digits", "Symbols", "Ambiguous"}[it.Arg]
		got := alphabetOf(spg.CharRecipe{Length: 1, Allow: c16Flags[name]})
		if got != sortedChars(doc[name]) {
			return fmt.Errorf("class %s is %q, documented %q", name, got, sortedChars(doc[name]))
		}
		// the same class through Require and through Exclude
		got = alphabetOf(spg.CharRecipe{Length: 1, Require: c16Flags[name]})
		if got != sortedChars(doc[name]) {
			return fmt.Errorf("class %s via Require is %q", name, got)
		}
		all := doc["Uppers"] + doc["Lowers"] + doc["Digits"] + doc["Symbols"] + doc["Ambiguous"]
		want := oracle.CharSpec{AllowChars: all, ExcludeChars: doc[name]}.Alphabet()
		got = alphabetOf(spg.CharRecipe{Length: 1, AllowChars: all, Exclude: c16Flags[name]})
		if got != strings.Join(want, "") {
			return fmt.Errorf("excluding class %s leaves %q, want %q", name, got, strings.Join(want, ""))
		}
	case "unions":
		if spg.Letters != spg.Uppers|spg.Lowers || spg.All != spg.Letters|spg.Digits|spg.Symbols || spg.None != 0 {
			return fmt.Errorf("named combinations: Letters=%d All=%d None=%d", spg.Letters, spg.All, spg.None)
		}
		// flags are distinct single bits
		seen := spg.CTFlag(0)
		for n, f := range c16Flags {
			if f == 0 || f&(f-1) != 0 || seen&f != 0 {
				return fmt.Errorf("flag %s = %d is not a distinct single bit", n, f)
			}
			seen |= f
		}
		if got, want := alphabetOf(spg.CharRecipe{Length: 1, Allow: spg.Letters}), sortedChars(doc["Uppers"]+doc["Lowers"]); got != want {
			return fmt.Errorf("Letters = %q", got)
		}
		if got, want := alphabetOf(spg.CharRecipe{Length: 1, Allow: spg.All}), sortedChars(doc["Uppers"]+doc["Lowers"]+doc["Digits"]+doc["Symbols"]); got != want {
			return fmt.Errorf("All = %q, want %q", got, want)
		}
	case "defaults":
		n := it.Arg
		r := spg.NewCharRecipe(n)
		if r == nil || r.Length != n || r.Allow != spg.All || r.Exclude != spg.Ambiguous || r.Require != spg.None || r.AllowChars != "" || r.ExcludeChars != "" || len(r.RequireSets) != 0 {
			return fmt.Errorf("NewCharRecipe(%d) = %+v", n, r)
		}
		want := oracle.CharSpec{Allow: oracle.All, Exclude: oracle.Ambiguous}.Alphabet()
		if got := r.Alphabet(); got != strings.Join(want, "") {
			return fmt.Errorf("default alphabet %q, want everything minus the ambiguous characters %q", got, strings.Join(want, ""))
		}
		wl, _ := spg.NewWordList([]string{"a", "b"})
		w := spg.NewWLRecipe(n, wl)
		// "no capitalisation and no separator" is judged by what it generates
		// (below), not by how the fields spell it
		if w == nil || w.Length != n {
			return fmt.Errorf("NewWLRecipe(%d) = %+v", n, w)
		}
		if spg.MaxTrials != 200 || spg.MaxFailRate != 1e-9 {
			return fmt.Errorf("retry budget: MaxTrials=%d MaxFailRate=%g, documented 200 and 1e-9", spg.MaxTrials, spg.MaxFailRate)
		}
		if n >= 1 {
			o := callForced(nil, func(k int, m uint32) uint32 { return uint32(k) % m }, 1, w.Generate)
			if o.Pw == nil || len(o.Pw.Tokens().Separators()) != 0 || len(o.Pw.Tokens().Atoms()) != n {
				return fmt.Errorf("default wordlist recipe of length %d generated %v (%v)", n, o.Pw, o.Err)
			}
			for _, a := range o.Pw.Tokens().Atoms() {
				if a != "a" && a != "b" {
					return fmt.Errorf("default wordlist recipe capitalised or altered a word: %q", a)
				}
			}
		}
	case "preset":
		name := []string{"SFNone", "SFDigits1", "SFDigits2", "SFDigitsNoAmbiguous1", "SFDigitsNoAmbiguous2", "SFSymbols", "SFDigitsSymbols"}[it.Arg]
		f := presetByName[name]
		var want []string
		if name == "SFNone" {
			want = []string{""}
		} else {
			sp := map[string]oracle.CharSpec{
				"SFDigits1":            {Length: 1, AllowChars: doc["Digits"]},
				"SFDigits2":            {Length: 2, AllowChars: doc["Digits"]},
				"SFDigitsNoAmbiguous1": {Length: 1, AllowChars: doc["Digits"], ExcludeChars: doc["Ambiguous"]},
				"SFDigitsNoAmbiguous2": {Length: 2, AllowChars: doc["Digits"], ExcludeChars: doc["Ambiguous"]},
				"SFSymbols":            {Length: 1, AllowChars: doc["Symbols"]},
				"SFDigitsSymbols":      {Length: 1, AllowChars: doc["Symbols"] + doc["Digits"]},
			}[name]
			want, _ = sp.ValidStrings(10000)
		}
		got := map[string]*big.Rat{}
		var val string
		var ent spg.FloatE
		ents := map[uint32]bool{}
		leaves, err := enum.Enumerate(enum.Opts{MaxLeaves: 20000, TailKey: 5}, func(s *enum.Session) {
			s.Run(func() { val, ent = f() })
		}, func(l *enum.Leaf) error {
			if l.S.Panic != nil {
				return fmt.Errorf("preset %s panicked: %v", name, l.S.Panic)
			}
			w, ok := got[val]
			if !ok {
				w = new(big.Rat)
				got[val] = w
			}
			w.Add(w, l.Weight)
			ents[math.Float32bits(float32(ent))] = true
			return nil
		})
		if err == enum.ErrTooBig {
			return &ev.Skip{Why: "preset tree beyond the leaf budget"}
		}
		if err != nil {
			return err
		}
		ev.Leaves(int64(leaves))
		if len(got) != len(want) {
			return fmt.Errorf("preset %s yields %d distinct values, its name says %d", name, len(got), len(want))
		}
		each := big.NewRat(1, int64(len(want)))
		for _, v := range want {
			p, ok := got[v]
			if !ok {
				return fmt.Errorf("preset %s never yields %q", name, v)
			}
			if p.Cmp(each) != 0 {
				return fmt.Errorf("preset %s yields %q with probability %v, want %v", name, v, p, each)
			}
		}
		// inside a recipe that also sets SeparatorChar the function still decides
		{
			wl, _ := spg.NewWordList([]string{"a", "b"})
			r := spg.NewWLRecipe(3, wl)
			r.SeparatorChar = "#"
			r.SeparatorFunc = f
			ok := map[string]bool{}
			for _, v := range want {
				ok[v] = true
			}
			for i := 0; i < 6; i++ {
				ii := i
				o := callForced(nil, func(k int, n uint32) uint32 { return uint32(k*3+ii) % n }, 7, r.Generate)
				if o.Pw == nil {
					return fmt.Errorf("recipe with preset %s did not generate: %v %v", name, o.Err, o.Panic)
				}
				seps := o.Pw.Tokens().Separators()
				if name == "SFNone" && len(seps) != 0 {
					return fmt.Errorf("preset SFNone in a recipe that also sets SeparatorChar produced separators %q", seps)
				}
				for _, sv := range seps {
					if !ok[sv] {
						return fmt.Errorf("preset %s in a recipe that also sets SeparatorChar produced the separator %q", name, sv)
					}
				}
			}
		}
		wantEnt := math.Log2(float64(len(want)))
		for b := range ents {
			if !oracle.Close32(math.Float32frombits(b), wantEnt, 2, 0) {
				return fmt.Errorf("preset %s reports entropy %v, want log2(%d) = %.6f", name, math.Float32frombits(b), len(want), wantEnt)
			}
		}
	case "budget":
		// "defaults to 200 attempts": a stream on which every candidate fails
		// A one-character recipe: an attempt is one choice, whatever the
		// implementation, so attempts can be counted in draws without touching
		// the budget knobs. f = the choice that fails, g = the one that succeeds.
		if spg.MaxTrials != 200 {
			return fmt.Errorf("MaxTrials defaults to %d, documented 200", spg.MaxTrials)
		}
		r := spg.CharRecipe{Length: 1, AllowChars: "ab", RequireSets: []string{"b"}}
		f, g := -1, -1
		for j := 0; j < 2; j++ {
			jj := uint32(j)
			o := callForced(nil, func(int, uint32) uint32 { return jj }, 3, r.Generate)
			if e := o.S.IndexLevelOK(); e != nil {
				return &ev.Inc{Why: e.Error()}
			}
			if o.Panic != nil {
				return fmt.Errorf("Generate panicked: %v", o.Panic)
			}
			if o.Pw != nil && len(o.S.Draws) == 1 {
				g = j
			} else if o.Pw == nil {
				f = j
			}
		}
		if f < 0 || g < 0 {
			return &ev.Inc{Why: "no constant failing / succeeding choice found for the one-character recipe"}
		}
		run := func(nFail int) outcome {
			return callForced(nil, func(k int, n uint32) uint32 {
				if k < nFail {
					return uint32(f)
				}
				return uint32(g)
			}, 3, r.Generate)
		}
		if o := run(199); o.Pw == nil || len(o.S.Draws) != 200 {
			return fmt.Errorf("the retry budget is documented as 200 attempts: after 199 failed attempts of a one-character recipe the 200th (a valid candidate) was not returned (password %v, err %v, %d draws)", o.Pw, o.Err, len(o.S.Draws))
		}
		if o := run(200); o.Pw != nil || o.Err == nil || len(o.S.Draws) != 200 {
			return fmt.Errorf("the retry budget is documented as 200 attempts: after 200 failed attempts of a one-character recipe Generate returned %v, %v after %d draws", o.Pw, o.Err, len(o.S.Draws))
		}
	case "tolerance":
		// "a tolerated overall failure probability of 1e-9 with 200 attempts":
		// one attempt succeeds with probability k/u; recipes on either side of the limit
		for _, ku := range [][2]int{{5, 51}, {6, 61}, {10, 102}, {11, 112}, {16, 163}, {1, 10}, {10, 101}, {2, 21}, {3, 31}, {9, 91}} {
			k, u := ku[0], ku[1]
			sp := oracle.CharSpec{Length: 1}
			req := ""
			for i := 0; i < u; i++ {
				ch := string(rune(0x4E00 + i))
				if i < k {
					req += ch
				} else {
					sp.AllowChars += ch
				}
			}
			sp.RequireSets = []string{req}
			if err := c13Run(c13Case{Spec: sp, MaxTrials: 200, MaxFail: 1e-9, Key: uint64(u)}); err != nil && !ev.IsSkip(err) {
				return fmt.Errorf("%d required characters in an alphabet of %d (success chance %.5f per attempt): %w", k, u, float64(k)/float64(u), err)
			}
		}
	case "class_filter":
		// a class required through its flag, in an alphabet padded with every
		// other printable ASCII character: exactly the documented members satisfy it
		name := []string{"Uppers", "Lowers", "Digits", "Symbols", "Ambiguous"}[it.Arg]
		other := ""
		for ch := byte(33); ch < 127; ch++ {
			if !strings.ContainsRune(doc[name], rune(ch)) {
				other += string(rune(ch))
			}
		}
		// every single attempt of a one-character recipe (budget of one attempt,
		// so that small classes are not refused): the accepted ones are the members
		sp := oracle.CharSpec{Length: 1, Require: map[string]uint32{"Uppers": oracle.Uppers, "Lowers": oracle.Lowers, "Digits": oracle.Digits, "Symbols": oracle.Symbols, "Ambiguous": oracle.Ambiguous}[name], AllowChars: other}
		r := toRecipe(sp)
		ref, err := findRef(r, 5, 2000)
		if err != nil {
			return err
		}
		cell, err := enumCell(r, ref, 20000)
		if err != nil {
			return err
		}
		accepted := map[string]bool{}
		for out := range cell.Accepted {
			if ok, why := sp.Valid(out); !ok {
				return fmt.Errorf("Require: %s accepted %q (%s)", name, out, why)
			}
			accepted[out] = true
		}
		want := map[string]bool{}
		for _, ch := range oracle.Chars(doc[name]) {
			want[ch] = true
		}
		if !reflect.DeepEqual(accepted, want) {
			return fmt.Errorf("Require: %s is satisfied by the one-character candidates %q, documented members are %q", name, o16keys(accepted), doc[name])
		}
	case "list":
		name := []string{"words", "syllables"}[it.Arg]
		list, file := spg.AgileWords, "agwordlist.txt"
		if name == "syllables" {
			list, file = spg.AgileSyllables, "agsyllables.txt"
		}
		lines, err := readLines(filepath.Join(ev.Cfg.RepoDir, "testdata", file))
		if err != nil {
			return &ev.Inc{Why: "cannot read source data file: " + err.Error()}
		}
		if len(lines) != len(list) {
			return fmt.Errorf("embedded %s list has %d entries, %s has %d lines", name, len(list), file, len(lines))
		}
		seen := map[string]bool{}
		for i, w := range list {
			if w != lines[i] {
				return fmt.Errorf("embedded %s list entry %d is %q, %s line %d is %q", name, i, w, file, i+1, lines[i])
			}
			if seen[w] {
				return fmt.Errorf("embedded %s list contains %q twice", name, w)
			}
			seen[w] = true
			if strings.ToLower(w) != w || w == "" {
				return fmt.Errorf("embedded %s list entry %q is not lower-case", name, w)
			}
		}
		ev.Leaves(int64(len(list)))
	}
	if it.After && ev.Cfg.Replay != "" {
		c16Warmup()
	}
	ev.NonTrivial(fmt.Sprintf("%s:%d:%v", it.What, it.Arg, it.After))
	ev.Sample("c16", 8, it)
	return nil
}

func TestC16(t *testing.T) {
	if !requireHooks(t) {
		return
	}
	ev.Fixed(t, "c16_documented", func(do func(c16Item) bool) {
		var items []c16Item
		for i := 0; i < 5; i++ {
			items = append(items, c16Item{What: "class", Arg: i})
		}
		items = append(items, c16Item{What: "unions"})
		for _, n := range []int{-1, 0, 1, 2, 3, 7, 20, 64, int(ev.Cfg.Seed%1000) + 1} {
			items = append(items, c16Item{What: "defaults", Arg: n})
		}
		for i := 0; i < 7; i++ {
			items = append(items, c16Item{What: "preset", Arg: i})
		}
		items = append(items, c16Item{What: "list", Arg: 0}, c16Item{What: "list", Arg: 1}, c16Item{What: "budget"}, c16Item{What: "tolerance"})
		for i := 0; i < 5; i++ {
			items = append(items, c16Item{What: "class_filter", Arg: i})
		}
		for i, it := range items {
			if i%ev.Cfg.NShards != ev.Cfg.Shard {
				continue
			}
			if !do(it) {
				return
			}
		}
		// "as documented" holds whatever was called before: repeat every item
		// after a warm-up that uses many other recipes, presets and lists in
		// this process (catches package-level state keyed too coarsely)
		c16Warmup()
		for i, it := range items {
			if i%ev.Cfg.NShards != ev.Cfg.Shard {
				continue
			}
			it.After = true
			if !do(it) {
				return
			}
		}
	}, c16Run)
	ev.Exhaustive("classes_defaults_presets_lists", true)
}

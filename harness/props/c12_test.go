package props

import (
	"fmt"
	"math"
	"strings"
	"testing"
	"unicode/utf8"

	"go.1password.io/spg"
	"pgregory.net/rapid"

	"verif/harness/internal/ev"
	"verif/harness/internal/oracle"
)

// C12 - Tokenize is total.

type c12Case struct {
	Pw      []byte  `json:"pw"` // bytes, may be invalid UTF-8
	Index   []byte  `json:"index"`
	Entropy float32 `json:"entropy"`
}

func c12Run(c c12Case) (err error) {
	pw := string(c.Pw)
	want, werr := oracle.Decode(pw, c.Index)
	kind := -1
	if len(c.Index) > 0 {
		kind = int(c.Index[0])
	}
	malformed := werr != nil
	if malformed {
		ev.Class("malformed:" + werr.Error())
	}
	if (kind >= 1 && kind <= 3 && len(c.Index) >= 3) || malformed {
		ev.NonTrivial(fmt.Sprintf("%x|%x", c.Pw, c.Index))
	}
	ev.Class(fmt.Sprintf("kind=%d", minInt(kind, 4)))
	ev.Sample("c12", 5, c)
	var p spg.Password
	var terr error
	func() {
		defer func() {
			if r := recover(); r != nil {
				err = fmt.Errorf("Tokenize(%q, %v) panicked: %v", pw, c.Index, r)
			}
		}()
		idx := spg.Indices(append([]byte{}, c.Index...)) // empty but non-nil when the index is empty
		if len(c.Index) == 0 && c.Entropy > 0 {
			idx = nil
		}
		p, terr = spg.Tokenize(pw, idx, c.Entropy)
	}()
	if err != nil {
		return err
	}
	if terr != nil {
		ev.Class("returned_error")
		return nil // an error is always an allowed answer
	}
	if malformed {
		return fmt.Errorf("Tokenize(%q, %v) accepted a malformed index (%v): tokens %q", pw, c.Index, werr, toToks(p.Tokens()))
	}
	got := toToks(p.Tokens())
	// consecutive slices: concatenation is a prefix
	cat := ""
	for _, t := range got {
		cat += t.V
	}
	if !strings.HasPrefix(pw, cat) {
		return fmt.Errorf("tokens %q are not consecutive slices of %q", got, pw)
	}
	if !utf8.ValidString(pw) {
		// what one "character" of ill-formed text is, is not documented (Go's
		// strings.Split makes every stray byte one, other conventions keep a
		// truncated sequence together), and with it how many tokens a
		// character-kind index yields: for such strings only "consecutive
		// slices" (above), the entropy and "no panic" are judged
		ev.Class("ill_formed_text_cuts_not_judged")
	} else if tokKey(got) != tokKey(want) {
		return fmt.Errorf("Tokenize(%q, %v) = %q, the index specifies %q", pw, c.Index, got, want)
	}
	if math.Float32bits(p.Entropy) != math.Float32bits(c.Entropy) {
		return fmt.Errorf("entropy %v not passed through (got %v)", c.Entropy, p.Entropy)
	}
	return nil
}

func minInt(a, b int) int {
	if a < b {
		return a
	}
	return b
}

func c12Gen(t *rapid.T) c12Case {
	var c c12Case
	switch rapid.IntRange(0, 4).Draw(t, "strkind") {
	case 0:
		c.Pw = nil
	case 1:
		c.Pw = rapid.SliceOfN(rapid.Byte(), 0, 12).Draw(t, "rawbytes")
	default:
		n := rapid.IntRange(0, 14).Draw(t, "nchars")
		s := ""
		for i := 0; i < n; i++ {
			s += rapid.SampledFrom([]string{"a", "b", "c", "-", "é", "正", "💩", "\xff", "\xc3", "1", "\n", "\r", " ", "\u0301", "\u0e34", "\uFFFD"}).Draw(t, "ch")
		}
		c.Pw = []byte(s)
	}
	if rapid.IntRange(0, 49).Draw(t, "long") == 0 {
		// a long string and an index made of maximal lengths
		chunk := rapid.SampledFrom([]string{"ab", "é-", "x", "正確馬"}).Draw(t, "chunk")
		n := rapid.IntRange(256, 900).Draw(t, "long_n")
		c.Pw = []byte(strings.Repeat(chunk, n/len([]rune(chunk))+1))
		c.Entropy = 2
		kind := byte(rapid.IntRange(1, 3).Draw(t, "long_kind"))
		c.Index = []byte{kind}
		for i := rapid.IntRange(1, 3).Draw(t, "long_entries"); i > 0; i-- {
			c.Index = append(c.Index, 255)
			if kind == 3 {
				c.Index = append(c.Index, byte(i%2))
			}
		}
		return c
	}
	nch := oracle.NChars(string(c.Pw))
	c.Entropy = rapid.Float32().Draw(t, "entropy")
	if rapid.IntRange(0, 19).Draw(t, "emptyidx") == 0 {
		return c
	}
	k := rapid.IntRange(0, 9).Draw(t, "kindclass")
	var kind byte
	switch {
	case k < 8:
		kind = byte(rapid.IntRange(0, 3).Draw(t, "kind"))
	case k == 8:
		kind = byte(rapid.IntRange(4, 8).Draw(t, "kind4"))
	default:
		kind = rapid.Byte().Draw(t, "kindany")
	}
	c.Index = []byte{kind}
	// body: lengths biased around the character count
	mode := rapid.IntRange(0, 3).Draw(t, "bodymode")
	if mode == 0 {
		c.Index = append(c.Index, rapid.SliceOfN(rapid.Byte(), 0, 12).Draw(t, "body")...)
		return c
	}
	target := nch + rapid.IntRange(-1, 1).Draw(t, "slack")
	if mode == 3 {
		target = rapid.IntRange(0, 3).Draw(t, "short")
	}
	left := target
	nent := rapid.IntRange(0, 7).Draw(t, "nent")
	for i := 0; i < nent; i++ {
		l := 0
		if left > 0 {
			l = rapid.IntRange(0, left).Draw(t, "len")
		}
		if i == nent-1 && left > 0 {
			l = left
		}
		if rapid.IntRange(0, 29).Draw(t, "big") == 0 {
			l = 255
		}
		left -= l
		if left < 0 {
			left = 0
		}
		c.Index = append(c.Index, byte(l))
		if kind == 3 {
			if i == nent-1 && rapid.IntRange(0, 3).Draw(t, "dangle") == 0 {
				break // truncated: dangling half pair
			}
			c.Index = append(c.Index, byte(rapid.SampledFrom([]int{0, 1, 1, 0, 2, 9}).Draw(t, "tt")))
		}
	}
	return c
}

func TestC12(t *testing.T) {
	ev.Check(t, "c12_total", ev.N(400000, 6000000), c12Gen, c12Run)
}

package props

import (
	"fmt"
	"math/big"
	"sort"
	"testing"

	"go.1password.io/spg"
	"pgregory.net/rapid"

	"verif/harness/internal/ev"
	"verif/harness/internal/gen"
	"verif/harness/internal/oracle"
	"verif/harness/internal/tape"
)

// C02 - character passwords uniform over exactly the allowed strings.

type c02Case struct {
	Spec     oracle.CharSpec `json:"spec"`
	Prefixes []int           `json:"prefixes"` // numbers of rejected candidates to enumerate behind
	Key      uint64          `json:"key"`
}

func hasDupInput(c oracle.CharSpec) bool {
	seen := map[string]bool{}
	all := c.AllowChars
	for _, f := range oracle.ClassOrder {
		if c.Allow&f != 0 {
			all += oracle.ClassChars[f]
		}
	}
	for _, s := range c.RequireSets {
		all += s
	}
	for _, f := range oracle.ClassOrder {
		if c.Require&f != 0 {
			all += oracle.ClassChars[f]
		}
	}
	for _, ch := range oracle.Chars(all) {
		if seen[ch] {
			return true
		}
		seen[ch] = true
	}
	return false
}

// checkCellUniform compares one enumerated cell with the reference set.
func checkCellUniform(c oracle.CharSpec, cell *cellResult, valid []string) error {
	want := map[string]bool{}
	for _, s := range valid {
		want[s] = true
	}
	var first *big.Rat
	var firstS string
	keys := make([]string, 0, len(cell.Accepted))
	for s := range cell.Accepted {
		keys = append(keys, s)
	}
	sort.Strings(keys)
	for _, s := range keys {
		w := cell.Accepted[s]
		if !want[s] {
			_, why := c.Valid(s)
			return fmt.Errorf("returned %q, which the recipe does not allow (%s)", s, why)
		}
		if first == nil {
			first, firstS = w, s
		} else if w.Cmp(first) != 0 {
			return fmt.Errorf("not uniform: %q has probability %v per candidate, %q has %v", s, w, firstS, first)
		}
	}
	for _, s := range valid {
		if _, ok := cell.Accepted[s]; !ok {
			return fmt.Errorf("valid string %q is never returned (%d of %d valid strings reachable)", s, len(cell.Accepted), len(valid))
		}
	}
	// (how often an attempt is accepted is not C02's business: an implementation
	// that never draws an invalid candidate is just as uniform)
	one := new(big.Rat).Add(cell.AccW, cell.RejW)
	if one.Cmp(big.NewRat(1, 1)) != 0 {
		return &ev.Inc{Why: fmt.Sprintf("leaf weights sum to %v", one)}
	}
	return nil
}

func c02Run(c c02Case) error {
	sp := c.Spec
	if refused, border := sp.Feasibility(spg.MaxTrials, spg.MaxFailRate); refused || border {
		ev.Class("refused_or_borderline_skipped")
		return &ev.Skip{Why: "recipe is refused (C13 owns refusals)"}
	}
	valid, ok := sp.ValidStrings(ev.Pick(20000, 200000))
	if !ok {
		return &ev.Skip{Why: "cell too large"}
	}
	if c.Key%2 == 0 {
		// half of the cases: recipes easily confused with this one are used first
		for _, sib := range gen.Siblings(sp) {
			sr := toRecipe(sib)
			sr.Alphabet()
			callRaw(&tape.Tape{TailKey: c.Key | 1}, sr.Generate)
		}
		ev.Class("decoy_siblings_first")
	}
	r := toRecipe(sp)
	ref, err := findRef(r, c.Key, 400)
	if err != nil {
		return err
	}
	cell, err := enumCell(r, ref, ev.Pick(20000, 200000)+10)
	if err != nil {
		return err
	}
	dup := hasDupInput(sp)
	if dup {
		ev.Class("duplicate_input_character")
	}
	if cell.NRejected > 0 {
		ev.Class("cell_with_rejections")
	}
	if len(sp.Required()) >= 2 {
		ev.Class("two_or_more_required_sets")
	}
	if (cell.NRejected >= 1 && cell.NAccepted >= 2) || (dup && cell.NAccepted >= 2) {
		ev.NonTrivial(fmt.Sprintf("%+v", sp))
	}
	ev.Sample("c02", 4, c)
	if err := checkCellUniform(sp, cell, valid); err != nil {
		return err
	}
	// a recipe easily confused with this one, enumerated right afterwards in the
	// same process, must be uniform over ITS valid strings
	if cell.Leaves <= 600 {
		for i, sib := range gen.Siblings(sp) {
			if rf, b := sib.Feasibility(spg.MaxTrials, spg.MaxFailRate); rf || b {
				continue
			}
			sv, ok := sib.ValidStrings(5000)
			if !ok {
				continue
			}
			sr := toRecipe(sib)
			sref, err := findRef(sr, c.Key^uint64(i+1), 400)
			if err != nil {
				if ev.IsSkip(err) {
					continue
				}
				return fmt.Errorf("sibling recipe %+v after %+v: %w", sib, sp, err)
			}
			sc, err := enumCell(sr, sref, 5010)
			if err == nil {
				err = checkCellUniform(sib, sc, sv)
			}
			if err != nil {
				if _, inc := err.(*ev.Inc); inc {
					return err
				}
				return fmt.Errorf("sibling recipe %+v used after %+v: %w", sib, sp, err)
			}
			ev.Class("sibling_cell_enumerated")
			if i >= 2 {
				break
			}
		}
	}
	// the attempt behind r rejected ones is judged like the first
	if cell.NRejected > 0 && len(cell.Rejected) > 0 {
		for _, np := range c.Prefixes {
			if np > 200 && cell.Leaves > 600 {
				continue // cost
			}
			var rej [][]uint32
			for i := 0; i < np; i++ {
				rej = append(rej, cell.Rejected[(i+int(c.Key%7))%len(cell.Rejected)])
			}
			pc, err := attemptBehind(r, rej, ev.Pick(20000, 200000)+10)
			if ev.IsSkip(err) {
				continue
			}
			if err != nil {
				return fmt.Errorf("attempt %d (behind %d rejected ones): %w", np+1, np, err)
			}
			if err := checkCellUniform(sp, pc, valid); err != nil {
				return fmt.Errorf("attempt %d (behind %d rejected ones): %w", np+1, np, err)
			}
			ev.Class(fmt.Sprintf("cell_behind_%d_rejections", np))
		}
	}
	return nil
}

func c02Gen(t *rapid.T) c02Case {
	capL := ev.Pick(20000, 200000)
	var sp oracle.CharSpec
	if rapid.IntRange(0, 3).Draw(t, "shape") == 0 {
		// full classes with short lengths
		sp = gen.CharSpec(t, gen.CharOpts{MaxLen: 4, MaxReq: 2, LeafCap: capL, NoHiBits: false})
	} else {
		sp = gen.CharSpec(t, gen.CharOpts{MaxLen: 8, MaxReq: 3, LeafCap: capL, Small: true})
	}
	// construction instead of rejection: relax requirements until the recipe
	// is one Generate accepts
	for i := 0; i < 8; i++ {
		refused, border := sp.Feasibility(spg.MaxTrials, spg.MaxFailRate)
		if !refused && !border {
			break
		}
		if len(sp.RequireSets) > 0 {
			sp.RequireSets = sp.RequireSets[:len(sp.RequireSets)-1]
		} else if sp.Require != 0 {
			sp.Require &= sp.Require - 1
		} else {
			break
		}
	}
	c := c02Case{Spec: sp, Key: rapid.Uint64().Draw(t, "key")}
	// prefixes only for small cells (cost multiplies)
	u := len(sp.AlphabetSet())
	sz := 1
	for i := 0; i < sp.Length && sz <= capL; i++ {
		sz *= u
	}
	if sz <= 2500 {
		c.Prefixes = []int{1, rapid.SampledFrom([]int{2, 7, 50, 199, 200, 450}).Draw(t, "prefix")}
	}
	return c
}

func TestC02(t *testing.T) {
	if !requireHooks(t) {
		return
	}
	ev.Check(t, "c02_uniform", ev.N(320, 3200), c02Gen, c02Run)
	// "no other string is ever returned": long recipes with an invalid first candidate
	ev.Check(t, "c02_long_invalid_first", ev.N(800, 16000), longInvalidFirstGen, longInvalidFirstRun)
	// long passwords / full-size alphabets: support check (every character at every position)
	ev.Check(t, "c02_long_support", ev.N(32, 320), func(t *rapid.T) supChar {
		sp := gen.CharSpec(t, gen.CharOpts{MaxLen: 120, MinLen: 20, MaxReq: 2, NoHiBits: true})
		return supChar{Spec: sp, Key: rapid.Uint64().Draw(t, "key")}
	}, func(c supChar) error {
		err := charSupport(c)
		if err == nil {
			ev.Class("long_support_checked")
			ev.NonTrivial(fmt.Sprintf("long|%+v", c.Spec))
			ev.Sample("c02_long_support", 2, c)
		}
		return err
	})
}

package props

import (
	"crypto/rand"
	"encoding/binary"
	"fmt"
	"os"
	"path/filepath"
	"strings"
	"sync"
	"sync/atomic"
	"syscall"
	"testing"
	"time"
	"unsafe"

	"go.1password.io/spg"
	"pgregory.net/rapid"

	"verif/harness/internal/enum"
	"verif/harness/internal/ev"
	"verif/harness/internal/gen"
	"verif/harness/internal/tape"
)

// C01 - bounded draws are exactly uniform for every bound.

// ---------------------------------------------------------------------------
// exhaustive sweep of all 2^32 first words for one bound

type sweepReader struct {
	w, cont uint32
	k       int
	badSize bool
	fill    uint64
}

func (r *sweepReader) Read(p []byte) (int, error) {
	if len(p) != 4 {
		// (never a constant filler: a sampler may reject it for ever)
		r.badSize = true
		for i := range p {
			r.fill = ev.Mix64(r.fill, uint64(i)+1)
			p[i] = byte(r.fill >> 24)
		}
		return len(p), nil
	}
	v := r.w
	if r.k > 0 {
		v = r.cont
	}
	r.k++
	binary.BigEndian.PutUint32(p, v)
	return 4, nil
}

type sweepResult struct {
	Accepted, Rejected uint64
	Err                string
}

// findCont learns a continuation word accepted on a fresh stream, and its result.
func findCont(n uint32) (c, fc uint32, err error) {
	x := uint64(n)*0x9E3779B97F4A7C15 + 12345
	for i := 0; i < 256; i++ {
		x = ev.Mix64(x, uint64(i))
		w := uint32(x >> 16)
		res, consumed, ok := enum.Probe(n, w, 4*64)
		if ok && (consumed == 4 || (n == 1 && consumed == 0 && res == 0)) {
			return w, res, nil
		}
	}
	return 0, 0, fmt.Errorf("bound %d: 256 pseudo-random words all rejected although more than half must be accepted", n)
}

// sweepRange runs words [lo,hi) and adds to hist (len n, or a bitset when bits).
func sweepRange(n uint32, lo, hi uint64, hist []uint32, bitset []uint64, small8 []uint8) (res sweepResult) {
	c, fc, err := findCont(n)
	if err != nil {
		res.Err = err.Error()
		return
	}
	rd := &sweepReader{cont: c}
	old := rand.Reader
	oldO := spg.VerifDrawObserver
	rand.Reader = rd
	spg.VerifDrawObserver = nil
	defer func() {
		rand.Reader = old
		spg.VerifDrawObserver = oldO
		if r := recover(); r != nil {
			res.Err = fmt.Sprintf("bound %d: panic during sweep at word %#x: %v", n, rd.w, r)
		}
	}()
	for v := lo; v < hi; v++ {
		rd.w = uint32(v)
		rd.k = 0
		r := spg.VerifRandomUint32n(n)
		if rd.badSize {
			// the sweep identifies one read with one 32-bit word
			res.Err = "inconclusive: random source read with a size other than 4 bytes"
			return
		}
		if rd.k == 1 || (n == 1 && rd.k == 0) { // a single alternative may be answered without reading

			if r >= n {
				res.Err = fmt.Sprintf("bound %d: word %#x gave %d, outside [0,%d)", n, uint32(v), r, n)
				return
			}
			switch {
			case hist != nil:
				hist[r]++
			case bitset != nil:
				if bitset[r>>6]&(1<<(r&63)) != 0 {
					res.Err = fmt.Sprintf("bound %d: index %d selected by more than one raw word (e.g. %#x) although 2^32/n < 2", n, r, uint32(v))
					return
				}
				bitset[r>>6] |= 1 << (r & 63)
			default:
				small8[r]++
				if small8[r] == 0 {
					res.Err = fmt.Sprintf("bound %d: index %d hit more than 255 times", n, r)
					return
				}
			}
			res.Accepted++
		} else {
			res.Rejected++
			if rd.k != 2 || r != fc {
				res.Err = fmt.Sprintf("bound %d: rejected word %#x followed by accepted word %#x gave %d after %d reads; a fresh stream gives %d after 1 read", n, uint32(v), c, r, rd.k, fc)
				return
			}
		}
	}
	if rd.badSize {
		res.Err = "inconclusive: random source read with a size other than 4 bytes"
	}
	return
}

func checkCounts(n uint32, acc, rej uint64, cell func(i uint32) uint64) error {
	if acc+rej != 1<<32 {
		return fmt.Errorf("bound %d: accepted %d + rejected %d != 2^32", n, acc, rej)
	}
	if acc <= 1<<31 {
		return fmt.Errorf("bound %d: only %d of 2^32 raw words accepted (must be more than half)", n, acc)
	}
	if acc%uint64(n) != 0 {
		return fmt.Errorf("bound %d: %d accepted words cannot be spread evenly over %d alternatives", n, acc, n)
	}
	want := acc / uint64(n)
	for i := uint32(0); i < n; i++ {
		if g := cell(i); g != want {
			return fmt.Errorf("bound %d: alternative %d is selected by %d raw words, alternative 0 by %d, expected %d each (modulo bias)", n, i, g, cell(0), want)
		}
	}
	return nil
}

type c01Sweep struct {
	N uint32 `json:"n"`
}

// soloSweep: whole 2^32 range in this process.
func soloSweep(c c01Sweep) error {
	n := c.N
	if n == 0 {
		return &ev.Skip{Why: "n=0"}
	}
	var hist []uint32
	var bits []uint64
	var s8 []uint8
	q := (uint64(1) << 32) / uint64(n)
	switch {
	case q < 2:
		bits = make([]uint64, (uint64(n)+63)/64)
	case q < 256:
		s8 = make([]uint8, n)
	default:
		hist = make([]uint32, n)
	}
	if n == 1 {
		// a single cell would overflow 32 bits: sweep in two halves
		a := sweepRange(1, 0, 1<<31, make([]uint32, 1), nil, nil)
		b := sweepRange(1, 1<<31, 1<<32, make([]uint32, 1), nil, nil)
		ev.Leaves(1 << 32)
		if a.Err != "" || b.Err != "" {
			return fmt.Errorf("%s %s", a.Err, b.Err)
		}
		return checkCounts(1, a.Accepted+b.Accepted, a.Rejected+b.Rejected, func(uint32) uint64 { return a.Accepted + b.Accepted })
	}
	r := sweepRange(n, 0, 1<<32, hist, bits, s8)
	ev.Leaves(int64(r.Accepted + r.Rejected))
	if r.Err != "" {
		if len(r.Err) > 12 && r.Err[:12] == "inconclusive" {
			return &ev.Inc{Why: r.Err}
		}
		return fmt.Errorf("%s", r.Err)
	}
	return checkCounts(n, r.Accepted, r.Rejected, func(i uint32) uint64 {
		switch {
		case hist != nil:
			return uint64(hist[i])
		case bits != nil:
			return (bits[i>>6] >> (i & 63)) & 1
		}
		return uint64(s8[i])
	})
}

// sharedSweep: this shard sweeps its slice of the word range and adds its
// histogram into a file shared (mmap) by all shard processes; the last shard
// to finish validates the total.
func sharedSweep(t *testing.T, n uint32, idx int) {
	work := os.Getenv("VERIF_WORK")
	N := ev.Cfg.NShards
	if work == "" || N == 1 {
		ev.Fixed(t, fmt.Sprintf("c01_sweep"), func(do func(c01Sweep) bool) { do(c01Sweep{n}) }, soloSweep)
		return
	}
	path := filepath.Join(work, fmt.Sprintf("sweep-%d-%d.bin", idx, n))
	f, err := os.OpenFile(path, os.O_RDWR|os.O_CREATE, 0o644)
	if err != nil {
		ev.Inconclusive("sweep file: " + err.Error())
		return
	}
	defer f.Close()
	size := 64 + 8*int(n)
	if err := f.Truncate(int64(size)); err != nil {
		ev.Inconclusive("sweep file: " + err.Error())
		return
	}
	mem, err := syscall.Mmap(int(f.Fd()), 0, size, syscall.PROT_READ|syscall.PROT_WRITE, syscall.MAP_SHARED)
	if err != nil {
		ev.Inconclusive("mmap: " + err.Error())
		return
	}
	defer syscall.Munmap(mem)
	hdr := (*[8]uint64)(unsafe.Pointer(&mem[0]))                   // 0 done, 1 accepted, 2 rejected, 3 failed
	shared := unsafe.Slice((*uint64)(unsafe.Pointer(&mem[64])), n) // 64-bit cells: bound 1 collects all 2^32 words
	lo := (uint64(1) << 32) * uint64(ev.Cfg.Shard) / uint64(N)
	hi := (uint64(1) << 32) * uint64(ev.Cfg.Shard+1) / uint64(N)
	hist := make([]uint32, n)
	r := sweepRange(n, lo, hi, hist, nil, nil)
	ev.Leaves(int64(r.Accepted + r.Rejected))
	ev.Eval(1)
	if r.Err != "" {
		atomic.AddUint64(&hdr[3], 1)
		if len(r.Err) > 12 && r.Err[:12] == "inconclusive" {
			ev.Inconclusive(r.Err)
		} else {
			ev.AddViolation("c01_sweep", c01Sweep{n}, r.Err)
			t.Errorf("%s", r.Err)
		}
	} else {
		for i, h := range hist {
			if h != 0 {
				atomic.AddUint64(&shared[i], uint64(h))
			}
		}
		atomic.AddUint64(&hdr[1], r.Accepted)
		atomic.AddUint64(&hdr[2], r.Rejected)
	}
	if done := atomic.AddUint64(&hdr[0], 1); done == uint64(N) && atomic.LoadUint64(&hdr[3]) == 0 {
		// last one in: validate the merged histogram
		err := checkCounts(n, atomic.LoadUint64(&hdr[1]), atomic.LoadUint64(&hdr[2]), func(i uint32) uint64 { return shared[i] })
		if err != nil {
			ev.AddViolation("c01_sweep", c01Sweep{n}, err.Error())
			t.Errorf("%v", err)
		} else {
			ev.Class("bounds_swept_exhaustively")
			if n&(n-1) != 0 {
				ev.NonTrivial(fmt.Sprintf("sweep:%d", n))
				ev.Class("bounds_swept_non_power_of_two")
			}
			ev.Sample("c01_sweep", 64, map[string]interface{}{"bound": n, "accepted": hdr[1], "rejected": hdr[2], "per_alternative": hdr[1] / uint64(n)})
		}
		_ = os.Remove(path)
	}
}

// ---------------------------------------------------------------------------
// concurrent draws with different bounds: a draw's result depends only on its
// own bound and the words it read

type cyclicReader struct {
	words   []uint32
	i       uint64
	badSize uint32 // set when a read is not one 32-bit word (the accounting then does not apply)
}

func (r *cyclicReader) Read(p []byte) (int, error) {
	k := atomic.AddUint64(&r.i, 1)
	w := r.words[k%uint64(len(r.words))]
	if len(p) != 4 {
		atomic.StoreUint32(&r.badSize, 1)
	}
	if len(p) >= 4 {
		binary.BigEndian.PutUint32(p, w)
		return 4, nil
	}
	for i := range p {
		p[i] = byte(ev.Mix64(uint64(w), k+uint64(i)) >> 24) // not judged any more: just never constant
	}
	return len(p), nil
}

type c01Conc struct {
	N1, N2 uint32
	Key    uint64
}

func c01ConcRun(c c01Conc) error {
	if c.N1 == 0 || c.N2 == 0 {
		return &ev.Skip{Why: "n=0"}
	}
	// the source hands out words from a small set W, in arbitrary interleaving;
	// whatever the interleaving, a draw with bound n must return the
	// single-threaded result of SOME word of W that n accepts
	var W []uint32
	rej1, _ := findRejected(c.N1, c.Key)
	rej2, _ := findRejected(c.N2, c.Key^1)
	W = append(W, rej1...)
	W = append(W, rej2...)
	x := c.Key
	for len(W) < 8 {
		x = ev.Mix64(x, uint64(len(W)))
		W = append(W, uint32(x>>7))
	}
	allowed := func(n uint32) (map[uint32]bool, bool) {
		m := map[uint32]bool{}
		for _, w := range W {
			res, consumed, ok := enum.Probe(n, w, 4*66)
			if ok && consumed == 4 {
				m[res] = true
			}
		}
		return m, len(m) > 0
	}
	a1, ok1 := allowed(c.N1)
	a2, ok2 := allowed(c.N2)
	if !ok1 || !ok2 {
		return &ev.Skip{Why: "no accepted word in the set"}
	}
	rd := &cyclicReader{words: W}
	old := rand.Reader
	oldO := spg.VerifDrawObserver
	rand.Reader = rd
	spg.VerifDrawObserver = nil
	defer func() { rand.Reader = old; spg.VerifDrawObserver = oldO }()
	var bad atomic.Value
	var wg sync.WaitGroup
	run := func(n uint32, ok map[uint32]bool) {
		defer wg.Done()
		defer func() {
			if r := recover(); r != nil {
				bad.Store(fmt.Sprintf("panic: %v", r))
			}
		}()
		for i := 0; i < 20000 && bad.Load() == nil && atomic.LoadUint32(&rd.badSize) == 0; i++ {
			if r := spg.VerifRandomUint32n(n); !ok[r] {
				bad.Store(fmt.Sprintf("a draw with bound %d returned %d while another goroutine drew with bound %d; no word the source handed out (%#x) gives that result for bound %d on its own", n, r, c.N1^c.N2^n, W, n))
				return
			}
		}
	}
	wg.Add(4)
	go run(c.N1, a1)
	go run(c.N2, a2)
	go run(c.N1, a1)
	go run(c.N2, a2)
	wg.Wait()
	if atomic.LoadUint32(&rd.badSize) != 0 {
		// words are not read one per call: pieces of different words mix
		// legitimately between goroutines and the accounting does not apply
		ev.Class("source_not_read_word_by_word_not_judged")
		return nil
	}
	if v := bad.Load(); v != nil {
		return fmt.Errorf("%s", v.(string))
	}
	ev.Class("concurrent_bounds_checked")
	ev.NonTrivial(fmt.Sprintf("conc|%d|%d", c.N1, c.N2))
	return nil
}

// ---------------------------------------------------------------------------
// call-site consistency (quick tier): the first bounded draw a generator
// announces must treat raw words exactly as the swept primitive does for the
// announced bound - same accept/redraw decision, and an output that is a
// function of the primitive's result. Checked on the windows where rejection
// thresholds live (top and bottom of the 32-bit range) plus scattered words.

type c01Site struct {
	Words  []string `json:"words,omitempty"` // wordlist input (with duplicates / twins); nil = character recipe
	Chars  string   `json:"chars,omitempty"`
	Scheme string   `json:"scheme,omitempty"`
	Length int      `json:"length"`
	Key    uint64   `json:"key"`
}

func c01SiteRun(c c01Site) error {
	var g func() (*spg.Password, error)
	window := uint64(1) << 14
	if c.Words != nil {
		wl, err := spg.NewWordList(append([]string{}, c.Words...))
		if err != nil {
			return &ev.Skip{Why: "empty"}
		}
		r := spg.NewWLRecipe(c.Length, wl)
		r.Capitalize = spg.CapScheme(c.Scheme)
		g = r.Generate
	} else {
		r := spg.CharRecipe{Length: c.Length, AllowChars: c.Chars}
		g = r.Generate
		window = 1 << 9
	}
	// learn the bound of the first draw and a continuation
	probe := callForced(nil, func(k int, n uint32) uint32 { return uint32(ev.Mix64(c.Key, uint64(k)) % uint64(n)) }, c.Key, g)
	if probe.Pw == nil || len(probe.S.Draws) == 0 {
		return &ev.Skip{Why: "no draw"}
	}
	if e := probe.S.IndexLevelOK(); e != nil {
		return &ev.Inc{Why: e.Error()} // draws and reads are not interleaved one word per draw
	}
	n := probe.S.Draws[0].Bound
	if n <= 1 {
		return &ev.Skip{Why: "first draw has a single alternative"}
	}
	cont := make([]uint32, len(probe.S.Draws))
	for i, d := range probe.S.Draws {
		cont[i] = d.Choice
	}
	byIdx := map[uint32]string{}
	var vs []uint64
	for i := uint64(0); i < window; i++ {
		vs = append(vs, i, 1<<32-1-i, uint64(uint32(ev.Mix64(c.Key, i))))
	}
	for _, v64 := range vs {
		v := uint32(v64)
		want, consumed, ok := enum.Probe(n, v, 4*66)
		if !ok {
			return &ev.Inc{Why: "probe failed"}
		}
		accepted := consumed == 4
		// the generator: first word v, afterwards forced representatives of the continuation
		s := &enum.Session{Tape: &tape.Tape{TailKey: c.Key | 1}, Force: true, Cont: func(k int, m uint32) uint32 { return cont[k%len(cont)] % m }}
		first := true
		s.Cont = func(k int, m uint32) uint32 { return cont[k%len(cont)] % m }
		var pw *spg.Password
		s.Run(func() {
			// serve v as the very first word: the observer pushes a representative
			// for draw 0; override it afterwards
			pw, _ = func() (*spg.Password, error) {
				old := spg.VerifDrawObserver
				spg.VerifDrawObserver = func(m uint32) {
					old(m)
					if first {
						first = false
						s.Tape.PushWord(v)
					}
				}
				defer func() { spg.VerifDrawObserver = old }()
				return g()
			}()
		})
		if s.Panic != nil {
			return fmt.Errorf("generation with first raw word %#x panicked: %v", v, s.Panic)
		}
		if pw == nil || len(s.Draws) == 0 || s.CapHit || s.NoRep != nil {
			return &ev.Skip{Why: "generation did not complete under the forced continuation"}
		}
		gotAccepted := s.Draws[0].Bytes == 4
		if gotAccepted != accepted {
			return fmt.Errorf("raw word %#x for a draw announced as 1-of-%d: the generator %s it, the bounded draw itself %s it (a rejection threshold that does not belong to this bound)", v, n, map[bool]string{true: "accepted", false: "redrew"}[gotAccepted], map[bool]string{true: "accepts", false: "redraws"}[accepted])
		}
		if !accepted {
			continue
		}
		out := tokKey(toToks(pw.Tokens()))
		if o, seen := byIdx[want]; seen && o != out {
			return fmt.Errorf("raw words with the same result %d of the bounded draw (1-of-%d) give different passwords: %q and %q", want, n, o, out)
		}
		byIdx[want] = out
		// (different results may give the same password - an index and a coin in
		// one draw, a draw that is ignored - but then evenly: see below)
	}
	// preimage balance: with everything else fixed, every password that the
	// first draw can produce is produced by the same number of its n results
	// (n small enough to try them all; results that make the generator draw
	// again are left out). A draw over more alternatives than there are
	// things to choose, folded back unevenly, fails this.
	if n <= 4096 && (c.Words == nil || c.Scheme == "none") {
		base := len(probe.S.Draws)
		groups := map[string]int{}
		for j := uint32(0); j < n; j++ {
			ch := append([]uint32{j}, cont[1:]...)
			o := callForced(ch, func(k int, m uint32) uint32 { return cont[k%len(cont)] % m }, c.Key, g)
			if o.Panic != nil {
				return fmt.Errorf("generation with first draw forced to %d of %d panicked: %v", j, n, o.Panic)
			}
			if o.Pw == nil || len(o.S.Draws) != base {
				continue
			}
			groups[tokKey(toToks(o.Pw.Tokens()))]++
		}
		size, first := -1, ""
		for out, k := range groups {
			if size < 0 {
				size, first = k, out
			} else if k != size {
				return fmt.Errorf("the first draw has %d alternatives; with everything else fixed %d of them give the password %q and %d give %q: the call site folds the draw's result unevenly", n, size, first, k, out)
			}
		}
		ev.Class("preimage_balance_checked")
	}
	ev.Leaves(int64(len(vs)))
	ev.Class("call_site_consistency")
	ev.NonTrivial(fmt.Sprintf("site|%v|%s|%s|%d", c.Words, c.Chars, c.Scheme, c.Length))
	return nil
}

// ---------------------------------------------------------------------------
// generator-level sweep (thorough tier): all 2^32 first words through a real
// call site - a one-word generation from a list given with duplicates and
// capitalised twins - so that "every generator draws through the swept
// primitive" is checked rather than assumed.

func genSweepShared(t *testing.T) {
	work := os.Getenv("VERIF_WORK")
	N := ev.Cfg.NShards
	if work == "" {
		return
	}
	// 8 distinct entries (one map bucket), 7 words after normalisation, 17 entries in all
	input := []string{"kiwi", "fig", "plum", "Plum", "pear", "kiwi", "lime", "date", "fig", "fig", "yuzu", "pear", "plum", "kiwi", "date", "yuzu", "lime"}
	// Every worker process builds its own list object and the library keeps
	// the words in map-iteration order. The histograms of the workers can only
	// be added up if all of them use the same index-to-word order: rebuild
	// until the list starts with "date", then compare an order hash through
	// the shared file (a mismatch is inconclusive, never a violation).
	var wl *spg.WordList
	var order []string
	for try := 0; try < 400; try++ {
		l, err := spg.NewWordList(append([]string{}, input...))
		if err != nil {
			ev.Inconclusive(err.Error())
			return
		}
		if o := readOrder(l); len(o) > 0 && o[0] == "date" {
			wl, order = l, o
			break
		}
	}
	if wl == nil {
		ev.Inconclusive("generator-level sweep: could not obtain a canonical list order")
		return
	}
	kept := []string{"date", "fig", "kiwi", "lime", "pear", "plum", "yuzu"} // reference normalisation, sorted
	idx := map[string]int{}
	for i, w := range kept {
		idx[w] = i
	}
	n := uint32(len(kept))
	r := spg.NewWLRecipe(1, wl)
	path := filepath.Join(work, "gensweep.bin")
	f, err := os.OpenFile(path, os.O_RDWR|os.O_CREATE, 0o644)
	if err != nil {
		ev.Inconclusive(err.Error())
		return
	}
	defer f.Close()
	size := 64 + 8*int(n)
	f.Truncate(int64(size))
	mem, err := syscall.Mmap(int(f.Fd()), 0, size, syscall.PROT_READ|syscall.PROT_WRITE, syscall.MAP_SHARED)
	if err != nil {
		ev.Inconclusive(err.Error())
		return
	}
	defer syscall.Munmap(mem)
	hdr := (*[8]uint64)(unsafe.Pointer(&mem[0]))
	shared := unsafe.Slice((*uint64)(unsafe.Pointer(&mem[64])), n)
	oh := ev.HashString(strings.Join(order, "|")) | 1
	if !atomic.CompareAndSwapUint64(&hdr[4], 0, oh) && atomic.LoadUint64(&hdr[4]) != oh {
		atomic.AddUint64(&hdr[3], 1)
		atomic.AddUint64(&hdr[0], 1)
		ev.Inconclusive("generator-level sweep: worker processes hold the list in different orders")
		return
	}
	c, _, cerr := findCont(n)
	if cerr != nil {
		ev.Inconclusive(cerr.Error())
		return
	}
	rd := &sweepReader{cont: c}
	old := rand.Reader
	oldO := spg.VerifDrawObserver
	rand.Reader = rd
	spg.VerifDrawObserver = nil
	lo := (uint64(1) << 32) * uint64(ev.Cfg.Shard) / uint64(N)
	hi := (uint64(1) << 32) * uint64(ev.Cfg.Shard+1) / uint64(N)
	hist := make([]uint64, n)
	var rejected uint64
	var fail string
	func() {
		defer func() {
			rand.Reader = old
			spg.VerifDrawObserver = oldO
			if rec := recover(); rec != nil {
				fail = fmt.Sprintf("panic at word %#x: %v", rd.w, rec)
			}
		}()
		contWord := ""
		for v := lo; v < hi && fail == ""; v++ {
			rd.w, rd.k = uint32(v), 0
			p, err := r.Generate()
			if err != nil {
				fail = fmt.Sprintf("word %#x: %v", uint32(v), err)
				break
			}
			s := p.String()
			i, ok := idx[s]
			if !ok {
				fail = fmt.Sprintf("word %#x selects %q, not a word of the normalised list", uint32(v), s)
				break
			}
			if rd.k == 1 {
				hist[i]++
			} else {
				rejected++
				if contWord == "" {
					contWord = s
				}
				if rd.k != 2 || s != contWord {
					fail = fmt.Sprintf("first word %#x was redrawn; the continuation word gave %q after %d reads, earlier %q", uint32(v), s, rd.k, contWord)
				}
			}
		}
	}()
	ev.Leaves(int64(hi - lo))
	ev.Eval(1)
	if fail != "" {
		atomic.AddUint64(&hdr[3], 1)
		ev.AddViolation("c01_generator_sweep", c01Sweep{n}, "one-word generation from a 17-entry list (7 words): "+fail)
		t.Errorf("%s", fail)
	} else {
		var acc uint64
		for i, h := range hist {
			atomic.AddUint64(&shared[i], h)
			acc += h
		}
		atomic.AddUint64(&hdr[1], acc)
		atomic.AddUint64(&hdr[2], rejected)
	}
	if done := atomic.AddUint64(&hdr[0], 1); done == uint64(N) && atomic.LoadUint64(&hdr[3]) == 0 {
		err := checkCounts(n, hdr[1], hdr[2], func(i uint32) uint64 { return shared[i] })
		if err != nil {
			msg := fmt.Sprintf("one-word generation from a 17-entry list (7 distinct words after normalisation), all 2^32 first words: %v (histogram %v, rejected %d)", err, shared, hdr[2])
			ev.AddViolation("c01_generator_sweep", c01Sweep{n}, msg)
			t.Errorf("%s", msg)
		} else {
			ev.Class("generator_level_sweep")
			ev.NonTrivial("gensweep:wl7of17")
			ev.Sample("c01_generator_sweep", 2, map[string]interface{}{"words": kept, "input_entries": len(input), "accepted": hdr[1], "rejected": hdr[2], "per_word": hdr[1] / uint64(n)})
		}
		os.Remove(path)
	}
}

var smallBounds = []uint32{3, 5, 6, 7, 10, 12, 15, 17, 26, 36, 51, 52, 55, 62, 68, 85, 94, 255, 257, 1000, 4369, 10129, 18325, 65535, 65537, 196611}

func c01Bounds() (shared []uint32, solo []uint32) {
	seed := ev.Cfg.Seed
	pick := func(k uint64, lo, hi uint32) uint32 {
		return lo + uint32(ev.Mix64(seed, k)%uint64(hi-lo+1))
	}
	if !ev.Thorough() {
		odd := []uint32{3, 5, 7, 55, 10129, 18325, 65535, 65537}
		even := []uint32{6, 10, 12, 26, 36, 52, 62, 68, 94, 1000}
		shared = []uint32{
			1 << (1 + ev.Mix64(seed, 1)%24),
			odd[ev.Mix64(seed, 2)%uint64(len(odd))],
			even[ev.Mix64(seed, 4)%uint64(len(even))],
			pick(3, 1<<16, 1<<24),
			// a divisor of 2^32-1 = 3*5*17*257*65537 (the largest raw word is then the only one to reject)
			[]uint32{3, 5, 15, 17, 51, 85, 255, 257, 771, 1285, 4369, 13107, 21845, 65535, 65537, 196611}[ev.Mix64(seed, 5)%16],
		}
		return
	}
	shared = append(shared, 1, 2, 4, 64, 1<<16, 1<<24)
	shared = append(shared, smallBounds...)
	shared = append(shared, 1<<8-1, 1<<8+1, 1<<12+1, 1<<20-1, 1<<20+2, 1<<24-1, 1<<23+1, 6<<20, 10<<20, 0xAAAAAB)
	for k := uint64(0); k < 6; k++ {
		shared = append(shared, pick(10+k, 2, 1<<24))
	}
	solo = []uint32{1<<31 - 1, 1 << 31, 1<<31 + 1, 3 << 30, 0xAAAAAAAB, 1<<32 - 2, 1<<32 - 1, 1<<28 + 3, 1<<30 + 1, 1 << 26,
		pick(30, 1<<24, 1<<31), pick(31, 1<<31, 1<<32-1), pick(32, 1<<24, 1<<28), pick(33, 1<<31, 1<<32-1), 1<<25 - 1, 5 << 27}
	return
}

// ---------------------------------------------------------------------------
// sampled necessary conditions over (n, tape)

type c01Case struct {
	N     uint32   `json:"n"`
	Words []uint32 `json:"words"`
	Tail  uint64   `json:"tail"`
}

func drawOnce(n uint32, words []uint32, tail uint64, capWords int) (res uint32, s *enum.Session) {
	tp := tape.FromWords(words, tail)
	tp.Cap = 4 * capWords
	s = &enum.Session{Tape: tp}
	s.Run(func() { res = spg.VerifRandomUint32n(n) })
	return
}

func wordAt(tp *tape.Tape, i int) uint32 {
	return uint32(tp.ByteAt(4*i))<<24 | uint32(tp.ByteAt(4*i+1))<<16 | uint32(tp.ByteAt(4*i+2))<<8 | uint32(tp.ByteAt(4*i+3))
}

func c01Run(c c01Case) error {
	if c.N == 0 {
		return &ev.Skip{Why: "n=0 is documented to panic"}
	}
	res, s := drawOnce(c.N, c.Words, c.Tail, len(c.Words)+64)
	if s.Panic != nil {
		return fmt.Errorf("bounded draw n=%d panicked: %v", c.N, s.Panic)
	}
	if s.CapHit {
		return fmt.Errorf("bounded draw n=%d rejected 64 consecutive pseudo-random words (more than half must be accepted)", c.N)
	}
	if res >= c.N {
		return fmt.Errorf("bounded draw n=%d returned %d", c.N, res)
	}
	pos := s.Tape.Pos
	if c.N == 1 && pos == 0 {
		ev.Class("single_alternative_answered_without_reading")
		return nil
	}
	if pos <= 0 || pos%4 != 0 {
		return fmt.Errorf("bounded draw n=%d consumed %d bytes (want a positive multiple of 4)", c.N, pos)
	}
	if len(s.Draws) != 1 || s.Draws[0].Bound != c.N {
		return &ev.Inc{Why: "observer hook did not announce exactly this draw"}
	}
	k := pos / 4
	acc := wordAt(s.Tape, k-1)
	if k > 1 {
		ev.Class("had_rejection")
		ev.NonTrivial(fmt.Sprintf("%d|%v", c.N, c.Words))
	}
	ev.Sample("c01_sampled", 3, c)
	// accepted once => accepted always, same result
	r2, s2 := drawOnce(c.N, []uint32{acc}, c.Tail^0xabc, 65)
	if s2.Panic != nil || s2.CapHit || s2.Tape.Pos != 4 || r2 != res {
		return fmt.Errorf("n=%d: word %#x was accepted as %d after %d rejected words, but alone gives %d after %d bytes", c.N, acc, res, k-1, r2, s2.Tape.Pos)
	}
	// counting bound that holds for every unbiased sampler: an alternative is
	// selected by at most floor(2^32/n) raw words. For small quotients look
	// for more preimages than that among words congruent to the accepted one.
	if q := (uint64(1) << 32) / uint64(c.N); q <= 6 {
		same := map[uint32]bool{acc: true}
		for k := int64(-8); k <= 8; k++ {
			w := uint32(int64(acc) + k*int64(c.N))
			if same[w] {
				continue
			}
			r4, s4 := drawOnce(c.N, []uint32{w}, c.Tail^0x123, 65)
			if s4.Panic == nil && !s4.CapHit && s4.Tape.Pos == 4 && r4 == res {
				same[w] = true
			}
		}
		ev.Class("preimage_count_checked")
		if uint64(len(same)) > q {
			return fmt.Errorf("n=%d: alternative %d is selected by at least %d raw words (e.g. %#x), but an unbiased draw allows at most floor(2^32/n) = %d", c.N, res, len(same), acc, q)
		}
	}
	// every continuation of the stream after rejected values: a long run of
	// rejected words in front of an accepted one changes nothing but the
	// number of words consumed (selection terminates with probability one,
	// there is no cap on redraws)
	if rej, ok := findRejected(c.N, c.Tail); ok {
		for _, k := range []int{1, 2, 15, 16, 17, 18, 33, 64, 65, 130, 257} {
			ws := make([]uint32, 0, k+1)
			for i := 0; i < k; i++ {
				ws = append(ws, rej[i%len(rej)])
			}
			ws = append(ws, acc)
			r5, s5 := drawOnce(c.N, ws, c.Tail^0x777, k+66)
			if s5.Panic != nil || s5.CapHit || s5.Tape.Pos != 4*(k+1) || r5 != res {
				return fmt.Errorf("n=%d: %d rejected words (e.g. %#x) followed by the accepted word %#x gave %d after %d bytes (panic=%v); a fresh stream gives %d, and every rejected word must be redrawn (want %d bytes)", c.N, k, rej[0], acc, r5, s5.Tape.Pos, s5.Panic, res, 4*(k+1))
			}
		}
		ev.Class("long_rejection_runs_checked")
	}
	// rejected once => rejected always; the stream after a rejection is fresh
	for i := 0; i < k-1 && i < 4; i++ {
		rej := wordAt(s.Tape, i)
		r3, s3 := drawOnce(c.N, []uint32{rej, acc}, c.Tail^0xdef, 66)
		if s3.Panic != nil || s3.CapHit || s3.Tape.Pos != 8 || r3 != res {
			return fmt.Errorf("n=%d: word %#x was rejected before, but [%#x, %#x] gives %d after %d bytes (want %d after 8)", c.N, rej, rej, acc, r3, s3.Tape.Pos, res)
		}
	}
	return nil
}

// findRejected looks, by probing the real sampler, for raw words it rejects
// for bound n (none exist for powers of two). No rejection rule is assumed:
// the candidates are merely places where rejection regions usually sit.
func findRejected(n uint32, key uint64) ([]uint32, bool) {
	q := (uint64(1) << 32) / uint64(n)
	cands := []uint32{1<<32 - 1, 1<<32 - 2, uint32(q * uint64(n)), uint32(q*uint64(n) + 1), uint32(uint64(1)<<32 - uint64(n)/2 - 1), 0, 1, n - 1, n}
	x := key
	for i := 0; i < 8; i++ {
		x = ev.Mix64(x, uint64(i))
		cands = append(cands, uint32(x))
	}
	var out []uint32
	for _, w := range cands {
		_, consumed, ok := enum.Probe(n, w, 4*66)
		if ok && consumed > 4 {
			out = append(out, w)
			if len(out) == 3 {
				break
			}
		}
	}
	return out, len(out) > 0
}

func c01Gen(t *rapid.T) c01Case {
	var n uint32
	switch rapid.IntRange(0, 5).Draw(t, "nclass") {
	case 0:
		n = uint32(rapid.IntRange(1, 300).Draw(t, "small"))
	case 1:
		n = uint32(1)<<uint(rapid.IntRange(0, 31).Draw(t, "pow")) + uint32(rapid.IntRange(-1, 1).Draw(t, "delta"))
	case 2:
		n = uint32(rapid.Uint32Range(1<<31, 1<<32-1).Draw(t, "big"))
	case 3:
		n = rapid.SampledFrom([]uint32{10129, 18325, 0xAAAAAAAB, 3 << 30, 1<<32 - 1, 1<<32 - 2, 1<<31 + 1, 0x55555556}).Draw(t, "named")
	default:
		n = rapid.Uint32Range(1, 1<<32-1).Draw(t, "any")
	}
	if n == 0 {
		n = 1
	}
	c := c01Case{N: n, Tail: rapid.Uint64().Draw(t, "tail")}
	nw := rapid.IntRange(0, 6).Draw(t, "nwords")
	q := (uint64(1) << 32) / uint64(n)
	for i := 0; i < nw; i++ {
		var w uint64
		switch rapid.IntRange(0, 7).Draw(t, "wclass") {
		case 0:
			w = 0
		case 1:
			w = 1<<32 - 1
		case 2:
			w = uint64(n) - 1
		case 3:
			w = uint64(n)
		case 4:
			w = q*uint64(n) + uint64(rapid.IntRange(-2, 2).Draw(t, "edge")+0)
		case 5:
			w = uint64(rapid.Uint64Range(0, q).Draw(t, "k"))*uint64(n) + uint64(rapid.IntRange(-1, 1).Draw(t, "km")+0)
		case 6:
			w = (1 << 32) - uint64(rapid.Uint32Range(1, 1<<16).Draw(t, "top"))
		default:
			w = uint64(rapid.Uint32().Draw(t, "w"))
		}
		c.Words = append(c.Words, uint32(w))
	}
	_ = gen.Uint32s
	return c
}

func TestC01(t *testing.T) {
	if !requireHooks(t) {
		return
	}
	part := func(name string) bool { // VERIF_C01_PARTS=a,b restricts the run (used when testing the machinery)
		v := os.Getenv("VERIF_C01_PARTS")
		return v == "" || strings.Contains(","+v+",", ","+name+",")
	}
	if part("gensweep") && ev.Thorough() && ev.Cfg.Replay == "" {
		genSweepShared(t)
	}
	if !part("sampled") {
		return
	}
	ev.Check(t, "c01_sampled", ev.N(40000, 2000000), c01Gen, c01Run)
	ev.Check(t, "c01_call_sites", ev.N(64, 640), func(t *rapid.T) c01Site {
		c := c01Site{Key: rapid.Uint64().Draw(t, "key"), Length: rapid.IntRange(1, 3).Draw(t, "length")}
		if rapid.IntRange(0, 3).Draw(t, "kind") == 0 {
			n := rapid.IntRange(2, 9).Draw(t, "nchars")
			c.Chars = "abcdefghijk"[:n]
			if rapid.Bool().Draw(t, "mixed_width") {
				c.Chars = string([]rune("aé正b💩cßλz")[:n]) // characters of 1 to 4 bytes
			}
			return c
		}
		c.Words = gen.WordList(t, gen.WordListOpts{Min: 2, Max: 14})
		c.Scheme = rapid.SampledFrom([]string{"none", "one", "random"}).Draw(t, "scheme")
		return c
	}, c01SiteRun)
	ev.Check(t, "c01_concurrent", ev.N(160, 3200), func(t *rapid.T) c01Conc {
		pick := func(l string) uint32 {
			switch rapid.IntRange(0, 3).Draw(t, l+"_class") {
			case 0:
				return uint32(rapid.IntRange(3, 300).Draw(t, l+"_small")) | 1
			case 1:
				return rapid.SampledFrom([]uint32{10, 10129, 18325, 1<<31 + 1, 3 << 30, 0xAAAAAAAB, 1<<32 - 1}).Draw(t, l+"_named")
			default:
				return rapid.Uint32Range(3, 1<<32-1).Draw(t, l+"_any")
			}
		}
		return c01Conc{N1: pick("n1"), N2: pick("n2"), Key: rapid.Uint64().Draw(t, "key")}
	}, c01ConcRun)
	if ev.Cfg.Replay != "" {
		ev.Check(t, "c01_sweep", 1, nil, soloSweep)
		return
	}
	shared, solo := c01Bounds()
	start := time.Now()
	for i, n := range shared {
		sharedSweep(t, n, i)
	}
	// big bounds: one whole sweep per process, spread over the shards
	for i, n := range solo {
		if i%ev.Cfg.NShards != ev.Cfg.Shard {
			continue
		}
		nn := n
		ev.Fixed(t, "c01_sweep", func(do func(c01Sweep) bool) { do(c01Sweep{nn}) }, func(c c01Sweep) error {
			if err := soloSweep(c); err != nil {
				return err
			}
			ev.Class("bounds_swept_exhaustively")
			ev.Class("bounds_swept_non_power_of_two")
			ev.NonTrivial(fmt.Sprintf("sweep:%d", c.N))
			ev.Sample("c01_sweep", 64, map[string]interface{}{"bound": c.N, "mode": "single process"})
			return nil
		})
	}
	ev.Note("sweep_wall_s", fmt.Sprintf("%.1f", time.Since(start).Seconds()))
	ev.Note("swept_bounds", fmt.Sprint(shared, solo))
}

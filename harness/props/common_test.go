package props

import (
	"fmt"
	"math"
	"os"
	"sync"
	"testing"

	"go.1password.io/spg"

	"verif/harness/internal/enum"
	"verif/harness/internal/ev"
	"verif/harness/internal/gen"
	"verif/harness/internal/oracle"
	"verif/harness/internal/tape"
)

func TestMain(m *testing.M) {
	ev.SetProperty(os.Getenv("VERIF_PROPERTY"))
	switch os.Getenv("VERIF_PROPERTY") {
	case "C16": // checks the class contents against the documented constants
	case "C09", "C15", "C14": // the first use of the library in the process belongs to the check itself (first-call sub-checks; concurrent first use in C14); they learn afterwards
	default:
		learnClasses()
	}
	ev.Main(m)
}

// learnClasses replaces the reference model's class contents by what the
// library under test says they are (the alphabet of a recipe allowing that
// class alone). Which characters a class has is C16's statement, checked
// there against the documented constants; every other check is about what
// is done WITH the classes and must not fire when only their content changed.
var learnOnce sync.Once

func learnClassesOnce() { learnOnce.Do(learnClasses) }

func learnClasses() {
	defer func() { recover() }() // a library that cannot answer leaves the documented contents in place
	for _, f := range oracle.ClassOrder {
		r := spg.CharRecipe{Length: 1, Allow: spg.CTFlag(f)}
		if got := r.Alphabet(); got != "" {
			oracle.ClassChars[f] = got
		}
	}
}

// ---------------------------------------------------------------------------
// spec -> spg values

func toRecipe(c oracle.CharSpec) spg.CharRecipe {
	r := spg.CharRecipe{
		Length:       c.Length,
		Allow:        spg.CTFlag(c.Allow),
		Require:      spg.CTFlag(c.Require),
		Exclude:      spg.CTFlag(c.Exclude),
		AllowChars:   c.AllowChars,
		ExcludeChars: c.ExcludeChars,
	}
	if c.RequireSets != nil {
		// callers build such slices with append: leave spare capacity behind the
		// last element (code that appends to the caller's slice then writes into
		// memory the caller shares)
		rs := make([]string, len(c.RequireSets)+spareCap)
		copy(rs, c.RequireSets)
		for i := len(c.RequireSets); i < len(rs); i++ {
			rs[i] = spareSentinel
		}
		r.RequireSets = rs[:len(c.RequireSets)]
	}
	return r
}

// spareCap is the extra capacity given to RequireSets slices built by toRecipe.
var spareCap = 0

const spareSentinel = "\x00caller-owned spare element"

// callerSliceIntact checks that a call left the caller's RequireSets array
// alone: the elements and the spare capacity behind them.
func callerSliceIntact(r *spg.CharRecipe, want []string) error {
	if len(r.RequireSets) != len(want) {
		return fmt.Errorf("RequireSets changed length: %q, caller set %q", r.RequireSets, want)
	}
	full := r.RequireSets[:cap(r.RequireSets)]
	for i, s := range full {
		if i < len(want) {
			if s != want[i] {
				return fmt.Errorf("the caller's RequireSets slice was modified: element %d is %q, caller set %q", i, s, want[i])
			}
		} else if s != spareSentinel {
			return fmt.Errorf("the spare capacity behind the caller's RequireSets slice was written to: element %d is now %q", i, s)
		}
	}
	return nil
}

var presetByName = map[string]spg.SFFunction{
	"SFNone":               spg.SFNone,
	"SFDigits1":            spg.SFDigits1,
	"SFDigits2":            spg.SFDigits2,
	"SFDigitsNoAmbiguous1": spg.SFDigitsNoAmbiguous1,
	"SFDigitsNoAmbiguous2": spg.SFDigitsNoAmbiguous2,
	"SFSymbols":            spg.SFSymbols,
	"SFDigitsSymbols":      spg.SFDigitsSymbols,
}

var presetSpec = map[string]oracle.CharSpec{
	"SFDigits1":            {Length: 1, Allow: oracle.Digits},
	"SFDigits2":            {Length: 2, Allow: oracle.Digits},
	"SFDigitsNoAmbiguous1": {Length: 1, Allow: oracle.Digits, Exclude: oracle.Ambiguous},
	"SFDigitsNoAmbiguous2": {Length: 2, Allow: oracle.Digits, Exclude: oracle.Ambiguous},
	"SFSymbols":            {Length: 1, Allow: oracle.Symbols},
	"SFDigitsSymbols":      {Length: 1, Allow: oracle.Symbols | oracle.Digits},
}

// scripted separator closure recording what it returned.
type scriptSep struct {
	vals     []string
	ent      float32
	calls    int
	returned []string
}

func (s *scriptSep) fn() (string, spg.FloatE) {
	v := s.vals[s.calls%len(s.vals)]
	s.calls++
	s.returned = append(s.returned, v)
	return v, spg.FloatE(s.ent)
}

// sepModel is what the reference knows about a separator setting: the set of
// values with exact probabilities (nil for scripted), and its entropy.
type sepModel struct {
	Values  []string // distinct values a gap can take ("" = no token)
	Uniform bool     // each value equally likely (valid strings of a char recipe)
	Entropy float64  // entropy the separator function is documented to report
	Script  *scriptSep
	Refused bool // functional separator whose recipe cannot generate (yields "")
	Nested  bool // separator values are list words (or title forms) from a nested recipe
}

// buildSep returns SeparatorChar, SeparatorFunc and the model.
func buildSep(s gen.SepSpec) (string, spg.SFFunction, sepModel) {
	switch s.Kind {
	case "const":
		return s.Const, nil, sepModel{Values: []string{s.Const}, Uniform: true}
	case "preset":
		f := presetByName[s.Preset]
		if s.Preset == "SFNone" {
			return "", f, sepModel{Values: []string{""}, Uniform: true}
		}
		sp := presetSpec[s.Preset]
		vs, _ := sp.ValidStrings(1 << 16)
		return "", f, sepModel{Values: vs, Uniform: true, Entropy: oracle.Log2Big(sp.CountIE())}
	case "func":
		vs, _ := s.Recipe.ValidStrings(1 << 16)
		m := sepModel{Values: vs, Uniform: true, Entropy: oracle.Log2Big(s.Recipe.CountIE())}
		if len(vs) == 0 {
			m.Values = []string{""}
			m.Refused = true
			m.Entropy = 0
		}
		return "", spg.NewSFFunction(toRecipe(*s.Recipe)), m
	case "draw":
		vals := append([]string{}, s.Draw...)
		ent := s.DrawEnt
		calls := 0
		vary := s.VaryEnt
		f := func() (string, spg.FloatE) {
			e := ent
			if vary && calls%2 == 1 {
				e++
			}
			calls++
			return vals[spg.VerifRandomUint32n(uint32(len(vals)))], spg.FloatE(e)
		}
		return "", f, sepModel{Values: vals, Uniform: true, Entropy: float64(ent)}
	case "nested":
		// filled in by buildWL (needs the list)
		return "", nil, sepModel{Entropy: 0}
	case "script":
		sc := &scriptSep{vals: s.Script, ent: s.ScriptEnt}
		return "", sc.fn, sepModel{Script: sc, Entropy: float64(s.ScriptEnt)}
	}
	return "", nil, sepModel{Values: []string{""}, Uniform: true}
}

// buildWL constructs the recipe; err from NewWordList is returned.
func buildWL(w gen.WLSpec) (*spg.WLRecipe, sepModel, error) {
	if len(w.Words) >= 2 {
		// first set up a different list that is easily confused with this one
		// (first two words merged): constructing a list must not depend on
		// which lists were constructed before
		spg.NewWordList(append([]string{w.Words[0] + w.Words[1]}, w.Words[2:]...))
	}
	input := append([]string{}, w.Words...)
	wl, err := spg.NewWordList(input)
	if err != nil {
		return nil, sepModel{}, err
	}
	// (that a list must not follow later changes of the caller's slice is
	// C10's "every generated atom is a kept word"; it is checked there only)
	r := spg.NewWLRecipe(w.Length, wl)
	r.Capitalize = spg.CapScheme(w.Scheme)
	var m sepModel
	r.SeparatorChar, r.SeparatorFunc, m = buildSep(w.Sep)
	if r.SeparatorFunc != nil && w.Sep.Decoy != "" {
		r.SeparatorChar = w.Sep.Decoy // documented: SeparatorChar is used only when SeparatorFunc is nil
	}
	if w.Sep.Kind == "nested" {
		// the separator is a one-word password from a second recipe over the SAME list
		il := 1 + len(w.Sep.Preset)%3 // inner length 1..3, carried in Preset ("", "x", "xx")
		inner := spg.NewWLRecipe(il, wl)
		inner.Capitalize = spg.CapScheme(w.Sep.Const)
		r.SeparatorFunc = func() (string, spg.FloatE) {
			p, err := inner.Generate()
			if err != nil {
				return "", 0
			}
			return p.String(), spg.FloatE(p.Entropy)
		}
		m = sepModel{Nested: true, Entropy: float64(inner.Entropy())}
	}
	return r, m, nil
}

func toToks(ts spg.Tokens) []oracle.Tok {
	out := make([]oracle.Tok, len(ts))
	for i, t := range ts {
		out[i] = oracle.Tok{V: t.Value(), T: uint8(t.Type())}
	}
	return out
}

func tokKey(ts []oracle.Tok) string {
	s := ""
	for _, t := range ts {
		s += fmt.Sprintf("%d:%d:%s|", t.T, len(t.V), t.V)
	}
	return s
}

// ---------------------------------------------------------------------------
// calling the code under test

type outcome struct {
	Pw    *spg.Password
	Err   error
	Panic interface{}
	Cap   bool
	S     *enum.Session
}

// silence redirects the process's stdout/stderr noise from spg diagnostics
// (fmt.Printf / log) away while f runs? Not needed: the driver discards child
// output. Kept as a no-op marker.

// callRaw runs g.Generate under a raw tape (observe mode).
func callRaw(tp *tape.Tape, g func() (*spg.Password, error)) outcome {
	s := &enum.Session{Tape: tp}
	var o outcome
	s.Run(func() { o.Pw, o.Err = g() })
	o.Panic, o.Cap, o.S = s.Panic, s.CapHit, s
	return o
}

// callForced runs g under forced index choices.
func callForced(choices []uint32, cont func(k int, n uint32) uint32, tailKey uint64, g func() (*spg.Password, error)) outcome {
	s := &enum.Session{Tape: &tape.Tape{TailKey: tailKey | 1}, Force: true, Choices: choices, Cont: cont}
	var o outcome
	s.Run(func() { o.Pw, o.Err = g() })
	o.Panic, o.Cap, o.S = s.Panic, s.CapHit, s
	if s.NoRep != nil {
		// the engine, not the code under test, failed: never a verdict
		panic(&ev.Inc{Why: s.IndexLevelOK().Error()})
	}
	return o
}

// hooksActive verifies on the tree just built that H2 (canonical alphabet)
// and H3 (draw observer) are wired in; checks relying on them call this
// first and stop as inconclusive otherwise.
func hooksActive() error {
	// H3: one wrapper draw = one announcement, one 4-byte read
	s := &enum.Session{Tape: &tape.Tape{TailKey: 77}}
	s.Run(func() { spg.VerifRandomUint32n(8) })
	if len(s.Draws) != 1 || s.Draws[0].Bound != 8 || s.Tape.Pos != 4 {
		return &ev.Inc{Why: fmt.Sprintf("hook H3 inactive: %d announcements, %d bytes", len(s.Draws), s.Tape.Pos)}
	}
	// H2: same tape, same string - over several repetitions with a big alphabet
	r := spg.CharRecipe{Length: 24, Allow: spg.All}
	var first string
	for i := 0; i < 6; i++ {
		o := callRaw(&tape.Tape{TailKey: 99}, r.Generate)
		if o.Pw == nil {
			return &ev.Inc{Why: "hook self-test: reference recipe did not generate"}
		}
		if i == 0 {
			first = o.Pw.String()
		} else if o.Pw.String() != first {
			return &ev.Inc{Why: "hook H2 inactive: generation is not a function of the tape"}
		}
	}
	return nil
}

// firstCallCheck must run before anything else draws in this process: the
// very first generation and later ones must be the same function of the
// source bytes.
func firstCallCheck() error {
	wl, err := spg.NewWordList([]string{"alpha", "beta", "gamma", "delta", "epsilon"})
	if err != nil {
		return &ev.Inc{Why: err.Error()}
	}
	r := spg.NewWLRecipe(4, wl)
	r.Capitalize = spg.CSRandom
	var first, firstPos = "", 0
	for i := 0; i < 3; i++ {
		tp := &tape.Tape{TailKey: 4242}
		o := callRaw(tp, r.Generate)
		if o.Pw == nil {
			return &ev.Inc{Why: "reference wordlist recipe did not generate"}
		}
		if i == 0 {
			first, firstPos = o.Pw.String(), tp.Pos
		} else if o.Pw.String() != first || tp.Pos != firstPos {
			return fmt.Errorf("the first generation in this process gave %q after %d source bytes, call %d with the same source bytes gave %q after %d: the outcome depends on whether another call preceded it", first, firstPos, i+1, o.Pw.String(), tp.Pos)
		}
	}
	return nil
}

func requireHooks(t *testing.T) bool {
	if err := hooksActive(); err != nil {
		ev.Inconclusive(err.Error())
		t.Skip(err.Error())
		return false
	}
	return true
}

func float32frombits(b uint32) float32 { return math.Float32frombits(b) }

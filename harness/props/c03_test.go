package props

import (
	"fmt"
	"math"
	"math/big"
	"sort"
	"strings"
	"testing"

	"go.1password.io/spg"
	"pgregory.net/rapid"

	"verif/harness/internal/ev"
	"verif/harness/internal/gen"
	"verif/harness/internal/oracle"
	"verif/harness/internal/tape"
)

// C03 - every character password satisfies its recipe; exclusion always wins.

// checkCharPassword: structure + validity of one returned password.
func checkCharPassword(sp oracle.CharSpec, pw *spg.Password) error {
	toks := pw.Tokens()
	if len(toks) != sp.Length {
		return fmt.Errorf("password %q has %d tokens, Length is %d", pw.String(), len(toks), sp.Length)
	}
	cat := ""
	for i, t := range toks {
		if t.Type() != spg.AtomType {
			return fmt.Errorf("token %d of %q is not an atom", i, pw.String())
		}
		if oracle.NChars(t.Value()) != 1 {
			return fmt.Errorf("token %d = %q is not exactly one character", i, t.Value())
		}
		cat += t.Value()
	}
	if cat != pw.String() {
		return fmt.Errorf("String() = %q is not the concatenation of the tokens %q", pw.String(), cat)
	}
	if ok, why := sp.Valid(cat); !ok {
		ex := sp.Excluded()
		for _, ch := range oracle.Chars(cat) {
			if ex[ch] {
				return fmt.Errorf("password %q contains the excluded character %q", cat, ch)
			}
		}
		return fmt.Errorf("password %q violates the recipe: %s", cat, why)
	}
	return nil
}

func checkAlphabet(sp oracle.CharSpec, r spg.CharRecipe) error {
	want := strings.Join(sp.Alphabet(), "")
	got := r.Alphabet()
	if got != want {
		return fmt.Errorf("Alphabet() = %q, want %q (sorted, repeat-free set of characters that can appear)", got, want)
	}
	return nil
}

// 1. flag cube
type c03Cube struct {
	Allow, Require, Exclude uint32
	Length                  int
	Gen                     bool
	Key                     uint64
}

func c03CubeRun(c c03Cube) error {
	sp := oracle.CharSpec{Length: c.Length, Allow: c.Allow, Require: c.Require, Exclude: c.Exclude}
	r := toRecipe(sp)
	if err := checkAlphabet(sp, r); err != nil {
		return err
	}
	if !c.Gen {
		return nil
	}
	refused, border := sp.Feasibility(spg.MaxTrials, spg.MaxFailRate)
	if refused || border {
		ev.Class("cube_refused")
		return nil
	}
	o := callRaw(&tape.Tape{TailKey: c.Key | 1}, r.Generate)
	if o.Panic != nil {
		return fmt.Errorf("Generate panicked: %v", o.Panic)
	}
	if o.Pw == nil {
		ev.Class("cube_generation_error")
		return nil
	}
	ev.Class("cube_generated")
	if c.Exclude&(c.Allow|c.Require) != 0 || popc(c.Require) >= 2 {
		ev.NonTrivial(fmt.Sprintf("cube|%d|%d|%d", c.Allow, c.Require, c.Exclude))
	}
	return checkCharPassword(sp, o.Pw)
}

var bigOne = big.NewRat(1, 1)

func popc(x uint32) int {
	n := 0
	for ; x != 0; x &= x - 1 {
		n++
	}
	return n
}

// 2./3. rapid recipes
type c03Case struct {
	Spec   oracle.CharSpec `json:"spec"`
	Script []uint32        `json:"script"`
	Key    uint64          `json:"key"`
}

func c03Nontrivial(sp oracle.CharSpec) bool {
	ex := sp.Excluded()
	hit := false
	for ch := range ex {
		if strings.Contains(sp.AllowChars, ch) {
			hit = true
		}
		for _, f := range oracle.ClassOrder {
			if (sp.Allow|sp.Require)&f != 0 && strings.Contains(oracle.ClassChars[f], ch) {
				hit = true
			}
		}
		for _, s := range sp.RequireSets {
			if strings.Contains(s, ch) {
				hit = true
			}
		}
	}
	mb := false
	for _, ch := range sp.Alphabet() {
		if len(ch) > 1 {
			mb = true
		}
	}
	if hit {
		ev.Class("excluded_char_also_allowed_or_required")
	}
	if mb {
		ev.Class("multibyte_alphabet")
	}
	if len(sp.Required()) >= 2 {
		ev.Class("two_or_more_required_sets")
	}
	return hit || mb || len(sp.Required()) >= 2
}

func c03RunRaw(c c03Case) error {
	sp := c.Spec
	r := toRecipe(sp)
	if err := checkAlphabet(sp, r); err != nil {
		return err
	}
	o := callRaw(tape.FromWords(c.Script, c.Key), r.Generate)
	if o.Panic != nil {
		return fmt.Errorf("Generate panicked: %v", o.Panic)
	}
	if c03Nontrivial(sp) {
		ev.NonTrivial(fmt.Sprintf("%+v", sp))
	}
	ev.Sample("c03_raw", 3, c)
	if o.Pw == nil {
		ev.Class("generation_error_not_judged_here")
		return nil
	}
	return checkCharPassword(sp, o.Pw)
}

func c03RunForced(c c03Case) error {
	sp := c.Spec
	r := toRecipe(sp)
	if refused, border := sp.Feasibility(spg.MaxTrials, spg.MaxFailRate); refused || border {
		return &ev.Skip{Why: "refused"}
	}
	ab := sp.Alphabet()
	abSet := sp.AlphabetSet()
	ref, err := findRef(r, c.Key, 200)
	if err != nil {
		return err
	}
	D := ref.D
	seen := map[string]bool{}
	// a stream on which every attempt fails must not yield an invalid password
	if pr, _ := sp.PSuccess(); pr != nil && pr.Cmp(bigOne) < 0 {
		var bad []uint32
		for i := 0; i < 200 && bad == nil; i++ {
			k := ev.Mix64(c.Key^0x3131, uint64(i))
			v := make([]uint32, D)
			for j := range v {
				v[j] = uint32(ev.Mix64(k, uint64(j)) >> 8)
			}
			oo := callForced(v, func(j int, m uint32) uint32 { return ref.Choices[j%D] }, k, r.Generate)
			if oo.Panic == nil && len(oo.S.Draws) > D {
				bad = make([]uint32, D)
				for j := 0; j < D; j++ {
					bad[j] = oo.S.Draws[j].Choice
				}
			}
		}
		if bad != nil {
			oo := callForced(nil, func(j int, m uint32) uint32 { return bad[j%D] }, c.Key, r.Generate)
			if oo.Panic != nil {
				return fmt.Errorf("Generate panicked when every attempt fails: %v", oo.Panic)
			}
			if oo.Pw != nil {
				if err := checkCharPassword(sp, oo.Pw); err != nil {
					return fmt.Errorf("on a stream where every candidate misses a requirement: %w", err)
				}
			}
			ev.Class("all_fail_stream_checked")
		}
	}
	// converse of "no other character is ever used": every alphabet character
	// can appear. Judged on pseudo-random source streams (no assumption about
	// which draw decides which character): with at least one position free of
	// requirements and a success chance of 1/2 or more, a given character is in
	// a given password with probability >= 1/(2U); N = 2U(ln U + 30) passwords
	// miss one with probability < e^-30.
	U := len(ab)
	pr, _ := sp.PSuccess()
	pf := 0.0
	if pr != nil {
		pf, _ = pr.Float64()
	}
	if sp.Length >= len(sp.Required())+1 && pf >= 0.5 && U <= 120 {
		N := int(2*float64(U)*(math.Log(float64(U))+30)) + 1
		for it := 0; it < N && len(seen) < U; it++ {
			o := callRaw(&tape.Tape{TailKey: ev.Mix64(c.Key, uint64(it)) | 1, Cap: 1 << 22}, r.Generate)
			if o.Panic != nil {
				return fmt.Errorf("Generate panicked: %v", o.Panic)
			}
			if o.Pw == nil {
				continue
			}
			if err := checkCharPassword(sp, o.Pw); err != nil {
				return err
			}
			for _, x := range oracle.Chars(o.Pw.String()) {
				if abSet[x] {
					seen[x] = true
				}
			}
		}
		ev.Leaves(int64(N))
		ev.Class("converse_checked")
		var missing []string
		for _, x := range ab {
			if !seen[x] {
				missing = append(missing, x)
			}
		}
		if len(missing) > 0 {
			sort.Strings(missing)
			return fmt.Errorf("Alphabet() lists %q but %d passwords from pseudo-random streams never contained %q", strings.Join(ab, ""), N, missing)
		}
	} else {
		ev.Class("converse_not_judged")
	}
	if c03Nontrivial(sp) {
		ev.NonTrivial(fmt.Sprintf("forced|%+v", sp))
	}
	ev.Sample("c03_forced", 3, c)
	return nil
}

// long recipes whose first candidate is forced to one repeated character (it
// misses a requirement); the stream is pseudo-random afterwards
var longInvalidFirstGen = func(t *rapid.T) c03Case {
	sp := oracle.CharSpec{Length: rapid.IntRange(20, 220).Draw(t, "length"),
		Allow:   uint32(rapid.SampledFrom([]int{3, 7, 15, 4, 1, 31}).Draw(t, "allow")),
		Require: uint32(rapid.SampledFrom([]int{4, 8, 12, 5, 16, 6}).Draw(t, "require")),
		Exclude: uint32(rapid.SampledFrom([]int{0, 16, 16, 8}).Draw(t, "exclude"))}
	if rapid.Bool().Draw(t, "custom") {
		sp.RequireSets = []string{rapid.SampledFrom([]string{"abcdef", "é", "xyz", "!"}).Draw(t, "set")}
	}
	return c03Case{Spec: sp, Key: rapid.Uint64().Draw(t, "key")}
}

var longInvalidFirstRun = func(c c03Case) error {
	sp := c.Spec
	if rf, b := sp.Feasibility(spg.MaxTrials, spg.MaxFailRate); rf || b {
		return &ev.Skip{Why: "refused"}
	}
	r := toRecipe(sp)
	L := sp.Length
	for _, j := range []uint64{0, 1 << 40, c.Key} {
		o := callForced(nil, func(k int, n uint32) uint32 {
			if k < L {
				return uint32(j % uint64(n))
			}
			return uint32(ev.Mix64(c.Key, uint64(k)) % uint64(n))
		}, c.Key, r.Generate)
		if o.Panic != nil {
			return fmt.Errorf("Generate panicked: %v", o.Panic)
		}
		if o.Pw == nil {
			continue
		}
		if len(o.S.Draws) > L {
			ev.Class("long_first_candidate_rejected")
		}
		if err := checkCharPassword(sp, o.Pw); err != nil {
			return fmt.Errorf("first candidate forced to one repeated character: %w", err)
		}
	}
	ev.NonTrivial(fmt.Sprintf("long|%+v", sp))
	return nil
}

func TestC03(t *testing.T) {
	if !requireHooks(t) {
		return
	}
	// 1. the complete flag cube, spread over the shards
	genEvery := 8
	if ev.Thorough() {
		genEvery = 1
	}
	ev.Fixed(t, "c03_flag_cube", func(do func(c03Cube) bool) {
		for i := 0; i < 1<<15; i++ {
			if i%ev.Cfg.NShards != ev.Cfg.Shard {
				continue
			}
			h := ev.Mix64(ev.Cfg.Seed, uint64(i))
			c := c03Cube{Allow: uint32(i & 31), Require: uint32(i>>5) & 31, Exclude: uint32(i>>10) & 31,
				Length: 1 + int(h%24), Gen: int(h>>8)%genEvery == 0, Key: h}
			if !do(c) {
				return
			}
		}
	}, c03CubeRun)
	ev.Exhaustive("flag_cube_alphabet_2^15", true)
	// 2. recipes x raw tapes
	ev.Check(t, "c03_raw", ev.N(64000, 800000), func(t *rapid.T) c03Case {
		o := gen.CharOpts{MaxLen: 64, MaxReq: 4, LongTail: 2000}
		if rapid.Bool().Draw(t, "small") {
			o.Small = true
		}
		return c03Case{Spec: gen.CharSpec(t, o), Script: gen.Uint32s(t, "script", 8), Key: rapid.Uint64().Draw(t, "key")}
	}, c03RunRaw)
	// 2b. the same, followed in the same process by recipes easily confused with it
	ev.Check(t, "c03_siblings", ev.N(8000, 100000), func(t *rapid.T) c03Case {
		o := gen.CharOpts{MaxLen: 24, MaxReq: 3, Small: rapid.Bool().Draw(t, "small")}
		c := c03Case{Spec: gen.CharSpec(t, o), Script: gen.Uint32s(t, "script", 4), Key: rapid.Uint64().Draw(t, "key")}
		if len(c.Spec.RequireSets) == 0 {
			c.Spec.RequireSets = []string{"ab", "c,d"}
		}
		return c
	}, func(c c03Case) error {
		if err := c03RunRaw(c); err != nil {
			return err
		}
		for i, sib := range gen.Siblings(c.Spec) {
			d := c
			d.Spec = sib
			ev.Eval(1)
			if err := c03RunRaw(d); err != nil {
				return fmt.Errorf("after using %+v, the sibling recipe #%d %+v: %w", c.Spec, i, sib, err)
			}
		}
		return nil
	})
	// 2c. long recipes: the first candidate is forced to one repeated character
	ev.Check(t, "c03_long_invalid_first", ev.N(1600, 30000), longInvalidFirstGen, longInvalidFirstRun)
	// 3. recipes x forced draws
	ev.Check(t, "c03_forced", ev.N(480, 12000), func(t *rapid.T) c03Case {
		c := c02Gen(t)
		sp := c.Spec
		if rapid.Bool().Draw(t, "longer") {
			sp.Length = rapid.IntRange(1, 12).Draw(t, "len")
		}
		return c03Case{Spec: sp, Key: c.Key}
	}, c03RunForced)
}

package props

import (
	"fmt"
	"reflect"
	"testing"

	"go.1password.io/spg"
	"pgregory.net/rapid"

	"verif/harness/internal/ev"
	"verif/harness/internal/gen"
	"verif/harness/internal/oracle"
	"verif/harness/internal/tape"
)

// C05 - wordlist password structure matches the recipe.

type c05Case struct {
	W      gen.WLSpec `json:"w"`
	Mode   int        `json:"mode"` // 0 raw tape, 1 every draw last index, 2 every draw index 0, 3 forced pseudo-random
	Script []uint32   `json:"script"`
	Key    uint64     `json:"key"`
}

// layoutLenient is set by checks other than C05 that use this predicate to
// say "the password honours the recipe" (C14, C15): the fine print of the
// token layout - no empty separator tokens - is C05's alone.
var layoutLenient = false

func checkWLStructure(w gen.WLSpec, m sepModel, pw *spg.Password) error {
	kept := oracle.Kept(w.Words)
	keptSet := map[string]bool{}
	titles := map[string]bool{}
	for _, k := range kept {
		keptSet[k] = true
		titles[oracle.Title(k)] = true
	}
	toks := toToks(pw.Tokens())
	var atoms, seps []string
	cat := ""
	for _, t := range toks {
		cat += t.V
		switch t.T {
		case oracle.AtomT:
			atoms = append(atoms, t.V)
		case oracle.SepT:
			seps = append(seps, t.V)
		default:
			return fmt.Errorf("token %q has unknown type %d", t.V, t.T)
		}
	}
	if len(atoms) != w.Length {
		return fmt.Errorf("password %q has %d atoms, Length is %d", cat, len(atoms), w.Length)
	}
	if pw.String() != cat {
		return fmt.Errorf("String() = %q is not the concatenation of the token values %q", pw.String(), cat)
	}
	if ga := pw.Tokens().Atoms(); !reflect.DeepEqual(append([]string{}, ga...), atoms) {
		return fmt.Errorf("Atoms() = %q, atom tokens are %q", ga, atoms)
	}
	gs := pw.Tokens().Separators()
	if len(gs) != len(seps) || (len(seps) > 0 && !reflect.DeepEqual(append([]string{}, gs...), seps)) {
		return fmt.Errorf("Separators() = %q, separator tokens are %q", gs, seps)
	}
	// capitalisation pattern
	canSel := make([]bool, len(atoms))
	canUn := make([]bool, len(atoms))
	for i, a := range atoms {
		canUn[i] = keptSet[a]
		canSel[i] = titles[a]
		if !canUn[i] && !canSel[i] {
			return fmt.Errorf("atom %d = %q is neither a list word nor a title-cased list word", i, a)
		}
	}
	switch w.Scheme {
	case "none":
		for i := range atoms {
			if !canUn[i] {
				return fmt.Errorf("scheme none: atom %d = %q is capitalised", i, atoms[i])
			}
		}
	case "first":
		for i := range atoms {
			if (i == 0 && !canSel[i]) || (i > 0 && !canUn[i]) {
				return fmt.Errorf("scheme first: atom %d = %q has the wrong capitalisation (atoms %q)", i, atoms[i], atoms)
			}
		}
	case "all":
		for i := range atoms {
			if !canSel[i] {
				return fmt.Errorf("scheme all: atom %d = %q is not capitalised (atoms %q)", i, atoms[i], atoms)
			}
		}
	case "one":
		ok := false
		for p := range atoms {
			if !canSel[p] {
				continue
			}
			good := true
			for i := range atoms {
				if i != p && !canUn[i] {
					good = false
				}
			}
			if good {
				ok = true
			}
		}
		if !ok {
			return fmt.Errorf("scheme one: atoms %q are not 'exactly one position capitalised'", atoms)
		}
	}
	// token layout
	var gaps []string // separator value per gap ("" = none)
	prevAtom := false
	pendingSep := ""
	havePending := false
	first := true
	for _, t := range toks {
		if t.T == oracle.SepT {
			if first {
				return fmt.Errorf("leading separator in %q", toks)
			}
			if !prevAtom || havePending {
				return fmt.Errorf("two separator tokens in one gap in %q", toks)
			}
			pendingSep, havePending = t.V, true
			prevAtom = false
		} else {
			if !first {
				gaps = append(gaps, pendingSep)
			}
			pendingSep, havePending = "", false
			prevAtom = true
		}
		first = false
	}
	if havePending {
		return fmt.Errorf("trailing separator in %q", toks)
	}
	for _, s := range seps {
		if s == "" && !layoutLenient {
			return fmt.Errorf("empty separator token in %q", toks)
		}
	}
	switch w.Sep.Kind {
	case "const":
		for g, v := range gaps {
			if v != w.Sep.Const {
				return fmt.Errorf("gap %d holds %q, the separator is %q (tokens %q)", g, v, w.Sep.Const, toks)
			}
		}
	case "preset", "func":
		if !m.Refused {
			ok := map[string]bool{}
			for _, v := range m.Values {
				ok[v] = true
			}
			for g, v := range gaps {
				if v == "" && w.Sep.Kind == "func" {
					continue // a separator recipe whose attempts all failed yields no separator
				}
				if !ok[v] {
					return fmt.Errorf("gap %d holds %q, which the separator function cannot produce", g, v)
				}
			}
		}
	case "nested":
		il := 1 + len(w.Sep.Preset)%3
		mx := 0
		for k := range titles {
			if len(k) > mx {
				mx = len(k)
			}
		}
		for k := range keptSet {
			if len(k) > mx {
				mx = len(k)
			}
		}
		for g, v := range gaps {
			if !wlLanguage(v, keptSet, titles, mx, il, w.Sep.Const, []string{""}) {
				return fmt.Errorf("gap %d holds %q, which is not a %d-word password of the nested separator recipe (scheme %s)", g, v, il, w.Sep.Const)
			}
		}
	case "script":
		// every gap holds the value of a call of its own: the gap values are a
		// sub-multiset of what the function returned (in which order the gaps are
		// filled is the implementation's choice)
		left := map[string]int{}
		for _, v := range m.Script.returned {
			left[v]++
		}
		for g, v := range gaps {
			if left[v] == 0 {
				return fmt.Errorf("gap %d holds %q; the separator function returned %q - not one fresh call per gap", g, v, m.Script.returned)
			}
			left[v]--
		}
	}
	return nil
}

func c05Run(c c05Case) error {
	w := c.W
	r, m, err := buildWL(w)
	if err != nil {
		return &ev.Skip{Why: "empty list"}
	}
	if rf, b := sepRefused(w.Sep); rf || b {
		m.Refused = true
	}
	var o outcome
	switch c.Mode {
	case 0:
		o = callRaw(tape.FromWords(c.Script, c.Key), r.Generate)
	case 1:
		o = callForced(nil, func(k int, n uint32) uint32 { return n - 1 }, c.Key, r.Generate)
	case 2:
		o = callForced(nil, func(k int, n uint32) uint32 { return 0 }, c.Key, r.Generate)
	default:
		o = callForced(nil, func(k int, n uint32) uint32 { return uint32(ev.Mix64(c.Key, uint64(k)) % uint64(n)) }, c.Key, r.Generate)
	}
	if o.Panic != nil {
		return fmt.Errorf("Generate panicked: %v", o.Panic)
	}
	if o.Cap {
		return &ev.Skip{Why: "read cap"}
	}
	if o.Pw == nil {
		return fmt.Errorf("Generate failed for a recipe with a list and Length %d: %v", w.Length, o.Err)
	}
	ev.Class("scheme=" + w.Scheme)
	ev.Class("sep=" + w.Sep.Kind)
	ev.Class(fmt.Sprintf("mode=%d", c.Mode))
	if w.Length > 64 {
		ev.Class("length>64")
	}
	if (w.Length >= 2 && w.Scheme != "none") || w.Sep.Kind != "const" || len(w.Sep.Const) != 1 {
		ev.NonTrivial(fmt.Sprintf("%v|%d|%s|%+v|%d", oracle.Kept(w.Words), w.Length, w.Scheme, w.Sep, c.Mode))
	}
	ev.Sample("c05", 4, c)
	return checkWLStructure(w, m, o.Pw)
}

func TestC05(t *testing.T) {
	if !requireHooks(t) {
		return
	}
	ev.Check(t, "c05_structure", ev.N(96000, 1000000), func(t *rapid.T) c05Case {
		w := gen.WL(t, gen.WLOpts{List: gen.WordListOpts{Min: 1, Max: 12}, MaxLen: 12, AllowScript: true, UnknownCap: true})
		if rapid.IntRange(0, 9).Draw(t, "nested_sep") == 0 {
			w.Sep = gen.SepSpec{Kind: "nested", Const: rapid.SampledFrom([]string{"none", "all", "first"}).Draw(t, "nested_scheme"),
				Preset: rapid.SampledFrom([]string{"", "x", "xx"}).Draw(t, "nested_len")}
		}
		if rapid.IntRange(0, 11).Draw(t, "long") == 0 {
			w.Length = rapid.IntRange(13, 300).Draw(t, "long_length") // "all lengths >= 1"
		}
		return c05Case{
			W:      w,
			Mode:   rapid.IntRange(0, 3).Draw(t, "mode"),
			Script: gen.Uint32s(t, "script", 8),
			Key:    rapid.Uint64().Draw(t, "key"),
		}
	}, c05Run)
}
